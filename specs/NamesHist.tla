---------------------------- MODULE NamesHist ----------------------------
(***************************************************************************)
(* C10 over HISTORIES: a task registry (taskchain.task.InputTasks - the    *)
(* mapping a chain fills while it wires dependencies and every run method  *)
(* reads) is a state machine: tasks are added and removed one at a time    *)
(* and looked up in between.  The answer of a lookup is a function of the  *)
(* CURRENT content only (LookupIsCurrent) - no order of insertion, no      *)
(* earlier lookup (memo) and no removed task may influence it.  TLC's      *)
(* behaviours are stepped through one real InputTasks object; after every  *)
(* step  reg[q], reg.get(q), q in reg  are compared with res.              *)
(***************************************************************************)
EXTENDS NameRes, TLC, Json

CONSTANTS NsMenu, GrpMenu, NameMenu, MaxSet

Universe == {[ns |-> n, grp |-> g, name |-> a] : n \in NsMenu, g \in GrpMenu, a \in NameMenu}
Queries == UNION {Forms(t) : t \in Universe}

VARIABLES reg,     \* the names registered now
          order,   \* their insertion order (what a dict-backed implementation could depend on)
          act,     \* the step just taken
          res      \* answer of the last lookup
vars == <<reg, order, act, res>>

Out(r) == IF r \in {NotFound, Ambiguous} THEN r ELSE [ns |-> r.ns, grp |-> r.grp, name |-> r.name]

Init == reg = {} /\ order = <<>> /\ act = [name |-> "Init"] /\ res = NotFound
Add(t) == /\ t \notin reg /\ Cardinality(reg) < MaxSet
          /\ reg' = reg \cup {t} /\ order' = Append(order, t)
          /\ act' = [name |-> "Add", t |-> t] /\ UNCHANGED res
Drop(t) == /\ t \in reg
             /\ reg' = reg \ {t} /\ order' = SelectSeq(order, LAMBDA u : u # t)
             /\ act' = [name |-> "Remove", t |-> t] /\ UNCHANGED res
\* lookups that matter: the query matches something now, or did match something that was there before
Lookup(q) == /\ reg' = reg /\ order' = order
             /\ act' = [name |-> "Lookup", q |-> q]
             /\ res' = Out(PFind(q, reg))
Next == (\E t \in Universe : Add(t) \/ Drop(t)) \/ (\E q \in Queries : Lookup(q))
Spec == Init /\ [][Next]_vars

\* the code's algorithm (character level) agrees with the property on every reachable content
FindConforms == \A q \in Queries : IFind(q, reg) = PFind(q, reg)
\* a lookup answers for the current content, whatever happened before
LookupIsCurrent == [][act'.name = "Lookup" => res' = Out(PFind(act'.q, reg'))]_vars
\* insertion order is irrelevant: the answer is the same for every permutation (sets: by construction of PFind);
\* stated on the I-level text list to make the claim about the transcription, not the definition
OrderFree == \A q \in Queries : IFind(q, reg) = IFind(q, {order[i] : i \in 1..Len(order)})
TypeOK == reg = {order[i] : i \in 1..Len(order)} /\ Cardinality(reg) = Len(order)
=============================================================================
