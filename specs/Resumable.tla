----------------------------- MODULE Resumable -----------------------------
(***************************************************************************)
(* Resumable results (ContinuesData; last clause of C05): the work         *)
(* directory <key>_tmp of a resumable task is kept for continuation -      *)
(* across runs that return before the result is finished, failing runs,    *)
(* reads of an older finished result by other task objects, forcing and    *)
(* interpreter restarts - until the task explicitly finishes it (the work  *)
(* directory becomes the result) or the result is deleted.                 *)
(*                                                                         *)
(* One computation, N chunks.  A run adds the next chunk to the work       *)
(* directory and finishes the result when all N are there.  Several task   *)
(* objects (chains) stand for the computation.                             *)
(*   fin   generation of the finished result visible to later chains (0 =  *)
(*         none); the work directory always belongs to generation cnt + 1  *)
(*   prog  chunks in the work directory                                    *)
(*   cnt   results finished so far                                         *)
(* TLC explores every sequence of requests (successful, failing before or  *)
(* after the chunk is written), forcing with and without deletion,         *)
(* reset_data and new objects; the behaviours are stepped through real     *)
(* ContinuesData tasks and  prog, fin, the returned location and whether   *)
(* run was executed  are compared after every step.                        *)
(***************************************************************************)
EXTENDS Naturals, Sequences, FiniteSets, TLC, Json

CONSTANTS N, Objs, MaxSteps, Emit

VARIABLES fin, prog, cnt, held, forced, act, steps
vars == <<fin, prog, cnt, held, forced, act, steps>>

Tick == steps < MaxSteps /\ steps' = steps + 1
Init == /\ fin = 0 /\ prog = 0 /\ cnt = 0 /\ steps = 0
        /\ held = [o \in Objs |-> "none"] /\ forced = [o \in Objs |-> FALSE]
        /\ act = [name |-> "Init"]

\* what a request of object o does: nothing (a value is held), load the finished result, or run one step
Mode(o) == IF held[o] # "none" THEN "held"
           ELSE IF fin # 0 /\ ~forced[o] THEN "load" ELSE "run"

\* fail: "no" | "before" (run raises before it writes its chunk) | "after" (after the chunk, before finishing)
Request(o, fail) ==
  /\ Tick
  /\ fail # "no" => Mode(o) = "run"
  /\ LET m == Mode(o)
         p1 == IF prog < N THEN prog + 1 ELSE prog
     IN CASE m = "held" -> UNCHANGED <<fin, prog, cnt, held>>
          [] m = "load" -> held' = [held EXCEPT ![o] = "fin"] /\ UNCHANGED <<fin, prog, cnt>>   \* the work directory is not touched
          [] m = "run" /\ fail = "before" -> UNCHANGED <<fin, prog, cnt, held>>
          [] m = "run" /\ fail = "after"  -> prog' = p1 /\ UNCHANGED <<fin, cnt, held>>
          [] m = "run" /\ fail = "no" /\ p1 = N ->       \* finished(): the work directory becomes the result
                 fin' = cnt + 1 /\ cnt' = cnt + 1 /\ prog' = 0 /\ held' = [held EXCEPT ![o] = "fin"]
          [] m = "run" /\ fail = "no" /\ p1 < N ->       \* returns unfinished: the value is the work directory
                 prog' = p1 /\ held' = [held EXCEPT ![o] = "work"] /\ UNCHANGED <<fin, cnt>>
  /\ act' = [name |-> "Request", o |-> o, fail |-> fail, mode |-> Mode(o),
             ran |-> (Mode(o) = "run")]
  \* forcing asks for ONE recomputation: the object is un-forced when its run has FINISHED the result; while the
  \* recomputation is still in progress (unfinished steps, failures) it stays forced and goes on where it stopped
  /\ forced' = IF Mode(o) = "run" /\ fail = "no" /\ (IF prog < N THEN prog + 1 ELSE prog) = N
                THEN [forced EXCEPT ![o] = FALSE] ELSE forced

Force(o, del) ==
  /\ Tick
  /\ forced' = [forced EXCEPT ![o] = TRUE] /\ held' = [held EXCEPT ![o] = "none"]
  /\ IF del /\ fin # 0 THEN fin' = 0 /\ prog' = 0 ELSE UNCHANGED <<fin, prog>>   \* deletion removes result AND work directory
  /\ act' = [name |-> "Force", o |-> o, del |-> del]
  /\ UNCHANGED cnt
Reset(o) ==
  /\ Tick /\ held[o] # "none"
  /\ held' = [held EXCEPT ![o] = "none"]
  /\ act' = [name |-> "Reset", o |-> o]
  /\ UNCHANGED <<fin, prog, cnt, forced>>
\* a new chain (also: a new interpreter) replaces object o
NewObject(o) ==
  /\ Tick /\ (held[o] # "none" \/ forced[o])
  /\ held' = [held EXCEPT ![o] = "none"] /\ forced' = [forced EXCEPT ![o] = FALSE]
  /\ act' = [name |-> "NewObject", o |-> o]
  /\ UNCHANGED <<fin, prog, cnt>>

Next == \E o \in Objs : \/ \E f \in {"no", "before", "after"} : Request(o, f)
                        \/ \E d \in BOOLEAN : Force(o, d)
                        \/ Reset(o) \/ NewObject(o)
Spec == Init /\ [][Next]_vars

TypeOK == fin \in 0..cnt /\ prog \in 0..N /\ held \in [Objs -> {"none", "work", "fin"}]
\* C05: progress is kept until the result is finished or deleted - nothing else makes the work directory lose chunks
ProgressKept == [][\/ prog' >= prog
                   \/ (prog' = 0 /\ cnt' = cnt + 1 /\ fin' = cnt')                 \* finished
                   \/ (prog' = 0 /\ fin' = 0 /\ act'.name = "Force" /\ act'.del)   \* deleted
                  ]_vars
\* a finished result is replaced only by the next generation, and only by finishing
FinishedOnlyByFinishing == [][fin' # fin => (fin' = cnt' /\ cnt' = cnt + 1 /\ prog + 1 >= N) \/ (fin' = 0 /\ act'.name = "Force")]_vars
\* a read never runs and never touches the work directory
LoadTouchesNothing == [][(act'.name = "Request" /\ act'.mode = "load") => (prog' = prog /\ fin' = fin /\ cnt' = cnt)]_vars
\* an object that holds the work directory holds the current one's generation: nobody finished in between ... is NOT
\* claimed (another object may finish the result; the holder's path then dangles) - documented, not a property

Proj == [fin |-> fin, prog |-> prog, cnt |-> cnt, held |-> held, forced |-> forced, steps |-> steps]
InitGen == Init /\ PrintT("@@" \o ToJson([tag |-> "I", st |-> Proj]))
NextGen == Next /\ PrintT("@@" \o ToJson([tag |-> "E", from |-> Proj, act |-> act',
                     to |-> [fin |-> fin', prog |-> prog', cnt |-> cnt', held |-> held', forced |-> forced', steps |-> steps']]))
=============================================================================
