--------------------------- MODULE StoreAtomic ---------------------------
(***************************************************************************)
(* Task objects, chains and one shared data directory, at the granularity  *)
(* of PUBLIC CALLS: every action is one call a user makes                  *)
(* (Chain(...), MultiChain(...), task.value, task.force, chain.force,      *)
(* inspection, interpreter restart).  A value request is a nested lazy     *)
(* pull; it is evaluated by the recursive operator Eval, which threads the *)
(* held values, the directory and the run log through the inputs in the    *)
(* order task.py pulls them (Task.data / _get_run_arguments).              *)
(*                                                                         *)
(* Decides (with the replay binding): C01, C04, C07, C13; supplies the     *)
(* success-path part of C18.  See DESIGN.md section 4.4.                   *)
(***************************************************************************)
EXTENDS Naturals, Sequences, FiniteSets, TLC, Json

CONSTANTS
  RCs,       \* resolved chains (one per configuration of the family): a set of strings
  Nodes,     \* Nodes[rc]: the full task names the configuration declares
  Class,     \* Class[rc][n]: the task class (slug) behind a node
  PVal,      \* PVal[rc][n]: the persisted parameter values the node is configured with
  Deps,      \* Deps[rc][n]: declared input nodes, a sequence (they all enter the storage key)
  Pulls,     \* Pulls[rc][n]: the inputs `run` actually reads, in the order it reads them
  Persists,  \* Persists[c]: FALSE for in-memory data classes
  DescId,    \* DescId[rc][n]: harness-supplied numbering of computations; validated below
  ND,        \* number of distinct computations
  KeyOf,     \* KeyOf[d]: storage location of computation d (identity unless collisions are modelled)
  NK,        \* number of locations
  NameMode,  \* TRUE: non-parameter mode - a result is stored under the NAME of the config that declares the task
  CfgName,   \* CfgName[rc][n]: that name
  Lists,     \* the lists of configurations a (Multi)Chain may be built from: set of sequences over RCs
  Slots,     \* chain variables of the program
  ForceSets, \* ForceSets[rc]: the sets of nodes chain.force is tried with
  MaxSteps,
  EnableForce, EnableFail, EnableRestart,
  Count      \* keep the run / excuse history counters (for RunsJustified, AtMostOnce)

(***************************************************************************)
(* What goes into a computation (C02/C03): the class, the persisted        *)
(* parameter values and, recursively, the computations of ALL declared     *)
(* inputs.  Because generated tasks return their provenance, Desc(rc, n)   *)
(* is also the reference value Ref(rc, n) of C01.                          *)
(***************************************************************************)
RECURSIVE Desc(_, _)
Desc(rc, n) == IF NameMode
               THEN [c |-> Class[rc][n], cfg |-> CfgName[rc][n]]      \* identity of a task in non-parameter mode
               ELSE [c |-> Class[rc][n], p |-> PVal[rc][n],
                     i |-> [k \in 1..Len(Deps[rc][n]) |-> Desc(rc, Deps[rc][n][k])]]

Pairs == UNION {{<<rc, n>> : n \in Nodes[rc]} : rc \in RCs}
Ds == 1..ND
Ks == 1..NK

\* The harness numbers computations; TLC checks that its numbering is exactly "same Desc".
ASSUME \A x \in Pairs, y \in Pairs :
          (Desc(x[1], x[2]) = Desc(y[1], y[2])) <=> (DescId[x[1]][x[2]] = DescId[y[1]][y[2]])
ASSUME \A x \in Pairs : DescId[x[1]][x[2]] \in Ds
ASSUME \A d \in Ds : KeyOf[d] \in Ks

\* per computation: a representative node, its class, the computations it pulls / depends on
\* (zero-arity, constant-level definitions: TLC evaluates them once)
Rep(d)    == CHOOSE x \in Pairs : DescId[x[1]][x[2]] = d
ClassDF   == [d \in Ds |-> Class[Rep(d)[1]][Rep(d)[2]]]
PullDF    == [d \in Ds |-> LET x == Rep(d) IN
                 [k \in 1..Len(Pulls[x[1]][x[2]]) |-> DescId[x[1]][Pulls[x[1]][x[2]][k]]]]
DepDF     == [d \in Ds |-> LET x == Rep(d) IN
                 {DescId[x[1]][Deps[x[1]][x[2]][k]] : k \in 1..Len(Deps[x[1]][x[2]])}]
PersDF    == [d \in Ds |-> Persists[ClassDF[d]]]
ClassD(d) == ClassDF[d]
PullD(d)  == PullDF[d]
DepD(d)   == DepDF[d]
PersD(d)  == PersDF[d]
\* the same computation has the same pulls / inputs whichever node represents it
ASSUME \A x \in Pairs : LET d == DescId[x[1]][x[2]] IN
          /\ PullDF[d] = [k \in 1..Len(Pulls[x[1]][x[2]]) |-> DescId[x[1]][Pulls[x[1]][x[2]][k]]]
          /\ DepDF[d] = {DescId[x[1]][Deps[x[1]][x[2]][k]] : k \in 1..Len(Deps[x[1]][x[2]])}

ObjsOf(rc)   == {DescId[rc][n] : n \in Nodes[rc]}
ObjsOfL(l)   == UNION {ObjsOf(l[i]) : i \in 1..Len(l)}

\* objects of configuration rc that (transitively) depend on object d, d included: chain.dependent_tasks
RECURSIVE DownFrom(_, _, _)
DownFrom(rc, S, k) ==
  IF k = 0 THEN S
  ELSE DownFrom(rc, S \cup {e \in ObjsOf(rc) : DepD(e) \cap S # {}}, k - 1)
Down(rc, S) == DownFrom(rc, S, ND)

RECURSIVE UpFrom(_, _)
UpFrom(S, k) == IF k = 0 THEN S ELSE UpFrom(S \cup UNION {{PullD(e)[j] : j \in 1..Len(PullD(e))} : e \in S}, k - 1)
PullClosure(d) == UpFrom({d}, ND)

VARIABLES
  disk,      \* disk[k]: <<>> (no result visible) or <<v>>: result visible, v = the computation whose value it is
  slot,      \* slot[s]: [rcs: list of configurations (<<>> = unbound), held: d -> <<>> | <<v>>, forced: set of d]
  lastruns,  \* run invocations of the last call, in completion order
  lasterr,   \* the last call raised
  act,       \* label of the last call (history; hidden from fingerprints by VIEW in pure checking runs)
  nrun,      \* nrun[k]: number of run executions that targeted location k (persisting classes)
  excuse,    \* excuse[k]: number of forcings / failures / deletions that justify one more run at k
  steps

vars == <<disk, slot, lastruns, lasterr, act, nrun, excuse, steps>>
View == <<disk, slot, nrun, excuse, steps>>

NoHeld  == [d \in Ds |-> <<>>]
Unbound == [rcs |-> <<>>, held |-> NoHeld, forced |-> {}]

(***************************************************************************)
(* The lazy pull.  h: held values of the chain's objects, dk: directory,   *)
(* fc: forced objects, F: computations whose run raises in this call.      *)
(* A value is the id of the computation it was produced by; a run that was *)
(* fed a foreign input produces 0 (a value that is nobody's reference).    *)
(* Result: new h, dk, the runs in completion order, err, and the value.    *)
(***************************************************************************)
RECURSIVE Eval(_, _, _, _, _), PullAll(_, _, _, _, _, _, _, _)
\* (fc is threaded through: a run that SUCCEEDS un-forces its object - forcing asks for exactly one recomputation;
\*  a run that fails leaves it forced)
Eval(h, dk, fc, d, F) ==
  IF h[d] # <<>>
    THEN [h |-> h, dk |-> dk, fc |-> fc, runs |-> <<>>, err |-> FALSE, v |-> h[d][1]]   \* held in memory
  ELSE IF PersD(d) /\ dk[KeyOf[d]] # <<>> /\ d \notin fc
    THEN [h |-> [h EXCEPT ![d] = dk[KeyOf[d]]], dk |-> dk, fc |-> fc, runs |-> <<>>, err |-> FALSE,
          v |-> dk[KeyOf[d]][1]]                                                        \* loaded, upstream untouched
  ELSE LET R == PullAll(h, dk, fc, PullD(d), 1, <<>>, <<>>, F) IN                       \* run
    IF R.err THEN [h |-> R.h, dk |-> R.dk, fc |-> R.fc, runs |-> R.runs, err |-> TRUE, v |-> 0]
    ELSE IF d \in F THEN [h |-> R.h, dk |-> R.dk, fc |-> R.fc, runs |-> Append(R.runs, d), err |-> TRUE, v |-> 0]
    ELSE LET val == IF \A j \in 1..Len(R.vals) : R.vals[j] = PullD(d)[j] THEN d ELSE 0 IN
         [h |-> [R.h EXCEPT ![d] = <<val>>],
          dk |-> IF PersD(d) THEN [R.dk EXCEPT ![KeyOf[d]] = <<val>>] ELSE R.dk,
          fc |-> R.fc \ {d},
          runs |-> Append(R.runs, d), err |-> FALSE, v |-> val]
PullAll(h, dk, fc, ins, j, vals, runs, F) ==
  IF j > Len(ins) THEN [h |-> h, dk |-> dk, fc |-> fc, vals |-> vals, runs |-> runs, err |-> FALSE]
  ELSE LET E == Eval(h, dk, fc, ins[j], F) IN
       IF E.err THEN [h |-> E.h, dk |-> E.dk, fc |-> E.fc, vals |-> vals, runs |-> runs \o E.runs, err |-> TRUE]
       ELSE PullAll(E.h, E.dk, E.fc, ins, j + 1, Append(vals, E.v), runs \o E.runs, F)

\* evaluate a set of objects one after the other (chain.force(recompute=True)); the order is the code's
\* (iteration over a Python set) and does not influence the resulting state
RECURSIVE EvalAll(_, _, _, _, _)
EvalAll(h, dk, fc, S, runs) ==
  IF S = {} THEN [h |-> h, dk |-> dk, fc |-> fc, runs |-> runs]
  ELSE LET d == CHOOSE x \in S : TRUE
           E == Eval(h, dk, fc, d, {})
       IN EvalAll(E.h, E.dk, E.fc, S \ {d}, runs \o E.runs)

\* history counters (kept only when Count = TRUE: they multiply the state space)
CountRuns(rs) == IF Count
                 THEN [k \in Ks |-> nrun[k] + Cardinality({i \in 1..Len(rs) : PersD(rs[i]) /\ KeyOf[rs[i]] = k})]
                 ELSE nrun

Label(name, s, m, n, T, del, rec, f) ==
  [name |-> name, s |-> s, m |-> m, n |-> n, T |-> T, del |-> del, rec |-> rec, f |-> f]

Init ==
  /\ disk = [k \in Ks |-> <<>>]
  /\ slot = [s \in Slots |-> Unbound]
  /\ lastruns = <<>> /\ lasterr = FALSE
  /\ act = Label("Init", 0, 0, "", {}, FALSE, FALSE, 0)
  /\ nrun = [k \in Ks |-> 0] /\ excuse = [k \in Ks |-> 0]
  /\ steps = 0

Tick == steps < MaxSteps /\ steps' = steps + 1

\* Chain(config) / MultiChain([configs...]): fresh task objects, nothing held, nothing forced, nothing run
NewChain(s, l) ==
  /\ Tick
  /\ slot' = [slot EXCEPT ![s] = [rcs |-> l, held |-> NoHeld, forced |-> {}]]
  /\ lastruns' = <<>> /\ lasterr' = FALSE
  /\ act' = Label("NewChain", s, 0, "", {}, FALSE, FALSE, 0)
  /\ UNCHANGED <<disk, nrun, excuse>>

\* Chain(config2, shared_tasks=registry): a second chain built LATER on the registry of an existing one.  Objects
\* of computations the registry already has are shared as they are - held values and forced flags included.
AddChain(s, rc) ==
  /\ Tick
  /\ Len(slot[s].rcs) = 1 /\ <<slot[s].rcs[1], rc>> \in Lists
  /\ slot' = [slot EXCEPT ![s].rcs = <<slot[s].rcs[1], rc>>]
  /\ lastruns' = <<>> /\ lasterr' = FALSE
  /\ act' = Label("AddChain", s, 0, rc, {}, FALSE, FALSE, 0)
  /\ UNCHANGED <<disk, nrun, excuse>>

\* chains[m][n].value, possibly with the run of computation f raising (f = 0: no fault)
Request(s, m, n, f) ==
  /\ Tick
  /\ slot[s].rcs # <<>> /\ m \in 1..Len(slot[s].rcs) /\ n \in Nodes[slot[s].rcs[m]]
  /\ f # 0 => EnableFail /\ f \in PullClosure(DescId[slot[s].rcs[m]][n])
  \* (the results of Eval are bound by a quantifier over a singleton so that TLC evaluates them once)
  /\ \E d \in {DescId[slot[s].rcs[m]][n]} :
     \E E \in {Eval(slot[s].held, disk, slot[s].forced, d, IF f = 0 THEN {} ELSE {f})} :
     /\ f # 0 => E.err                                            \* a fault that does not fire is no fault
     /\ slot' = [slot EXCEPT ![s].held = E.h, ![s].forced = E.fc]
     /\ disk' = E.dk
     /\ lastruns' = E.runs /\ lasterr' = E.err
     /\ nrun' = CountRuns(E.runs)
     /\ excuse' = IF Count /\ E.err /\ PersD(f) THEN [excuse EXCEPT ![KeyOf[f]] = @ + 1] ELSE excuse
  /\ act' = Label("Request", s, m, n, {}, FALSE, FALSE, f)

\* task.force(delete_data)
Force(s, m, n, del) ==
  /\ EnableForce /\ Tick
  /\ slot[s].rcs # <<>> /\ m \in 1..Len(slot[s].rcs) /\ n \in Nodes[slot[s].rcs[m]]
  /\ \E d \in {DescId[slot[s].rcs[m]][n]} :
     /\ slot' = [slot EXCEPT ![s].held[d] = <<>>, ![s].forced = @ \cup {d}]
     /\ disk' = IF del /\ PersD(d) THEN [disk EXCEPT ![KeyOf[d]] = <<>>] ELSE disk
     /\ excuse' = IF Count /\ PersD(d) THEN [excuse EXCEPT ![KeyOf[d]] = @ + 1] ELSE excuse
  /\ lastruns' = <<>> /\ lasterr' = FALSE
  /\ act' = Label("Force", s, m, n, {}, del, FALSE, 0)
  /\ UNCHANGED nrun

\* One chain.force(T, recompute, delete_data) of configuration rc, as a function on (held, directory, forced):
\* mark T and everything downstream in that chain; drop their held values; optionally delete their results;
\* optionally request every marked object again.
\* Task.reset_data(): the object forgets the value it holds; nothing else changes (a forced object stays forced, the
\* store is untouched).  The next request loads a visible result again, runs an in-memory task again.
Reset(s, m, n) ==
  /\ EnableForce /\ Tick
  /\ slot[s].rcs # <<>> /\ m \in 1..Len(slot[s].rcs) /\ n \in Nodes[slot[s].rcs[m]]
  /\ \E d \in {DescId[slot[s].rcs[m]][n]} :
     /\ slot[s].held[d] # <<>>
     /\ slot' = [slot EXCEPT ![s].held[d] = <<>>]
  /\ lastruns' = <<>> /\ lasterr' = FALSE
  /\ act' = Label("Reset", s, m, n, {}, FALSE, FALSE, 0)
  /\ UNCHANGED <<disk, nrun, excuse>>

ForceStage(h, dk, fc, rc, T, rec, del) ==
  LET marked == Down(rc, {DescId[rc][n] : n \in T})
      h1 == [d \in Ds |-> IF d \in marked THEN <<>> ELSE h[d]]
      d1 == IF del THEN [k \in Ks |-> IF \E d \in marked : PersD(d) /\ KeyOf[d] = k THEN <<>> ELSE dk[k]] ELSE dk
      f1 == fc \cup marked
      R  == IF rec THEN EvalAll(h1, d1, f1, marked, <<>>) ELSE [h |-> h1, dk |-> d1, fc |-> f1, runs |-> <<>>]
  IN [h |-> R.h, dk |-> R.dk, fc |-> R.fc, runs |-> R.runs, marked |-> marked]

\* chain.force(...) on member m of slot s
ChainForce(s, m, T, rec, del) ==
  /\ EnableForce /\ Tick
  /\ slot[s].rcs # <<>> /\ m \in 1..Len(slot[s].rcs) /\ T \subseteq Nodes[slot[s].rcs[m]]
  /\ \E R \in {ForceStage(slot[s].held, disk, slot[s].forced, slot[s].rcs[m], T, rec, del)} :
     /\ slot' = [slot EXCEPT ![s].held = R.h, ![s].forced = R.fc]
     /\ disk' = R.dk
     /\ lastruns' = R.runs /\ lasterr' = FALSE
     /\ nrun' = CountRuns(R.runs)
     /\ excuse' = IF Count
                  THEN [k \in Ks |-> excuse[k] + Cardinality({d \in R.marked : PersD(d) /\ KeyOf[d] = k})]
                  ELSE excuse
  /\ act' = Label("ChainForce", s, m, "", T, del, rec, 0)

\* multichain.force(...): the code passes the call to every member chain in turn (MultiChain.force), so a task
\* shared by both members is marked - and with recompute=True run - once per member.  One public call, two stages.
MultiForce(s, T, rec, del) ==
  /\ EnableForce /\ Tick
  /\ Len(slot[s].rcs) = 2 /\ T \subseteq Nodes[slot[s].rcs[1]] /\ T \subseteq Nodes[slot[s].rcs[2]]
  /\ \E R1 \in {ForceStage(slot[s].held, disk, slot[s].forced, slot[s].rcs[1], T, rec, del)} :
     \E R2 \in {ForceStage(R1.h, R1.dk, R1.fc, slot[s].rcs[2], T, rec, del)} :
     /\ slot' = [slot EXCEPT ![s].held = R2.h, ![s].forced = R2.fc]
     /\ disk' = R2.dk
     /\ lastruns' = R1.runs \o R2.runs /\ lasterr' = FALSE
     /\ nrun' = CountRuns(R1.runs \o R2.runs)
     /\ excuse' = IF Count
                  THEN [k \in Ks |-> excuse[k] + Cardinality({d \in R1.marked : PersD(d) /\ KeyOf[d] = k})
                                               + Cardinality({d \in R2.marked : PersD(d) /\ KeyOf[d] = k})]
                  ELSE excuse
  /\ act' = Label("MultiForce", s, 0, "", T, del, rec, 0)

\* has_data, data_path, run_info, log, tasks_df, str(chain), readable links: observe, change nothing, run nothing
\* MultiChain.force given TASK OBJECTS (those of the first member): every member is forced from ITS names of these
\* computations - the members may mount the shared pipeline under different namespaces.  (Objects a member does not
\* have make the real call fail: not modelled, the action needs every object in both members.)
MultiForceObj(s, T, rec, del) ==
  /\ EnableForce /\ Tick
  /\ Len(slot[s].rcs) = 2 /\ T # {} /\ T \subseteq Nodes[slot[s].rcs[1]]
  /\ \E D \in {{DescId[slot[s].rcs[1]][t] : t \in T}} :
     \E T2 \in {{n \in Nodes[slot[s].rcs[2]] : DescId[slot[s].rcs[2]][n] \in D}} :
     /\ \A d \in D : \E n \in T2 : DescId[slot[s].rcs[2]][n] = d
     /\ \E R1 \in {ForceStage(slot[s].held, disk, slot[s].forced, slot[s].rcs[1], T, rec, del)} :
        \E R2 \in {ForceStage(R1.h, R1.dk, R1.fc, slot[s].rcs[2], T2, rec, del)} :
        /\ slot' = [slot EXCEPT ![s].held = R2.h, ![s].forced = R2.fc]
        /\ disk' = R2.dk
        /\ lastruns' = R1.runs \o R2.runs /\ lasterr' = FALSE
        /\ nrun' = CountRuns(R1.runs \o R2.runs)
        /\ excuse' = IF Count
                     THEN [k \in Ks |-> excuse[k] + Cardinality({d \in R1.marked : PersD(d) /\ KeyOf[d] = k})
                                                  + Cardinality({d \in R2.marked : PersD(d) /\ KeyOf[d] = k})]
                     ELSE excuse
  /\ act' = Label("MultiForceObj", s, 0, "", T, del, rec, 0)

Inspect(s) ==
  /\ Tick
  /\ slot[s].rcs # <<>>
  /\ lastruns' = <<>> /\ lasterr' = FALSE
  /\ act' = Label("Inspect", s, 0, "", {}, FALSE, FALSE, 0)
  /\ UNCHANGED <<disk, slot, nrun, excuse>>

\* the interpreter exits; every object is gone, the directory stays
Restart ==
  /\ EnableRestart /\ Tick
  /\ \E s \in Slots : slot[s].rcs # <<>>
  /\ slot' = [s \in Slots |-> Unbound]
  /\ lastruns' = <<>> /\ lasterr' = FALSE
  /\ act' = Label("Restart", 0, 0, "", {}, FALSE, FALSE, 0)
  /\ UNCHANGED <<disk, nrun, excuse>>

AllNodes == UNION {Nodes[rc] : rc \in RCs}
Next ==
  \/ \E s \in Slots, l \in Lists : NewChain(s, l)
  \/ \E s \in Slots, rc \in RCs : AddChain(s, rc)
  \/ \E s \in Slots, m \in 1..2, n \in AllNodes :
        slot[s].rcs # <<>> /\ m <= Len(slot[s].rcs) /\ n \in Nodes[slot[s].rcs[m]] /\
        \E f \in {0} \cup (IF EnableFail THEN PullClosure(DescId[slot[s].rcs[m]][n]) ELSE {}) : Request(s, m, n, f)
  \/ EnableForce /\ \E s \in Slots, m \in 1..2, n \in AllNodes, del \in BOOLEAN : Force(s, m, n, del)
  \/ EnableForce /\ \E s \in Slots, m \in 1..2, n \in AllNodes : Reset(s, m, n)
  \/ EnableForce /\ \E s \in Slots, m \in 1..2, rec \in BOOLEAN, del \in BOOLEAN :
        slot[s].rcs # <<>> /\ m <= Len(slot[s].rcs) /\
        \E T \in ForceSets[slot[s].rcs[m]] : ChainForce(s, m, T, rec, del)
  \/ EnableForce /\ \E s \in Slots, rec \in BOOLEAN, del \in BOOLEAN :
        Len(slot[s].rcs) = 2 /\ \E T \in ForceSets[slot[s].rcs[1]] : MultiForce(s, T, rec, del)
  \/ EnableForce /\ \E s \in Slots, rec \in BOOLEAN, del \in BOOLEAN :
        Len(slot[s].rcs) = 2 /\ \E T \in ForceSets[slot[s].rcs[1]] : MultiForceObj(s, T, rec, del)
  \/ \E s \in Slots : Inspect(s)
  \/ Restart

Spec == Init /\ [][Next]_vars

(***************************************************************************)
(* Edge export for the replay binding (generation runs, -workers 1).       *)
(***************************************************************************)
Enc(x) == IF x = <<>> THEN 0 ELSE IF x[1] = 0 THEN ND + 1 ELSE x[1]     \* 0 absent, ND+1 poisoned, else the value
Proj(dk, sl, lr, le, st) ==
  [disk |-> [k \in Ks |-> Enc(dk[k])],
   slots |-> [s \in Slots |-> [rcs |-> sl[s].rcs, held |-> [d \in Ds |-> Enc(sl[s].held[d])],
                                forced |-> {d \in Ds : d \in sl[s].forced}]],
   lastruns |-> lr, lasterr |-> le, steps |-> st]
InitGen == Init /\ PrintT("@@" \o ToJson([tag |-> "I", st |-> Proj(disk, slot, lastruns, lasterr, steps)]))
NextGen == Next /\ PrintT("@@" \o ToJson([tag |-> "E", from |-> Proj(disk, slot, lastruns, lasterr, steps),
                                          act |-> act',
                                          to |-> Proj(disk', slot', lastruns', lasterr', steps')]))

(***************************************************************************)
(* Properties (P-level), checked on every reachable state / step.          *)
(***************************************************************************)
TypeOK ==
  /\ \A k \in Ks : disk[k] = <<>> \/ (Len(disk[k]) = 1 /\ disk[k][1] \in {0} \cup Ds)
  /\ \A s \in Slots : slot[s].rcs = <<>> \/ slot[s].rcs \in Lists

\* C01: whatever a chain holds (and therefore returns) for a task is that task's reference value
NoForeignValue ==
  \A s \in Slots, d \in Ds : slot[s].held[d] # <<>> => slot[s].held[d] = <<d>>

\* C01/C03: a visible result at a location is the value of every computation stored there
StoreSound ==
  \A d \in Ds : (PersD(d) /\ disk[KeyOf[d]] # <<>>) => disk[KeyOf[d]] = <<d>>

\* C01: only objects of the slot's own chains ever hold something
HeldOnlyOwn ==
  \A s \in Slots, d \in Ds : slot[s].held[d] # <<>> => d \in ObjsOfL(slot[s].rcs)

\* C04: runs at one location are bounded by their justifications (first computation + forcings, failures, deletions)
RunsJustified == Count => \A k \in Ks : nrun[k] <= 1 + excuse[k]

\* C04: without forcing, failure or deletion: at most once per location, whatever the chains, orders and restarts
AtMostOnce == (Count /\ ~EnableForce /\ ~EnableFail) => \A k \in Ks : nrun[k] <= 1

\* C04: a request runs nothing outside the pull closure of the requested task; inspection and construction run nothing
OnlyOnDemand ==
  [][ /\ act'.name \in {"NewChain", "AddChain", "Inspect", "Restart", "Force"} => lastruns' = <<>>
      /\ act'.name = "Request" =>
           \A i \in 1..Len(lastruns') :
              lastruns'[i] \in PullClosure(DescId[slot[act'.s].rcs[act'.m]][act'.n])
    ]_vars

\* C04: a run happens only where no result is visible, or the object was forced, or (inside one recompute call)
\* the result had just been deleted / the object just marked
RunOnlyIfNeeded ==
  [][ \A i \in 1..Len(lastruns') : LET d == lastruns'[i] IN
        \/ ~PersD(d)
        \/ disk[KeyOf[d]] = <<>>
        \/ \E s \in Slots : d \in slot[s].forced \cup slot'[s].forced
        \/ (act'.name \in {"ChainForce", "MultiForce", "MultiForceObj"} /\ act'.rec)      \* marked, recomputed and un-forced in one call
    ]_vars

\* C04/C13: building another chain on a registry neither drops nor creates held values
AddChainKeeps == [][act'.name = "AddChain" => slot'[act'.s].held = slot[act'.s].held /\ slot'[act'.s].forced = slot[act'.s].forced]_vars

\* C04/C07: one call never runs a computation twice
NoDoubleRun == [][ act'.name \notin {"MultiForce", "MultiForceObj"} =>
                     \A i, j \in 1..Len(lastruns') : i # j => lastruns'[i] # lastruns'[j] ]_vars

\* C07: chain.force marks exactly T and everything downstream of it in that chain, nothing else;
\*      delete_data removes exactly those results; recompute leaves each of them run exactly once and held
ForceExact ==
  [][ (act'.name = "ChainForce") =>
        LET s == act'.s
            rc == slot[s].rcs[act'.m]
            M == Down(rc, {DescId[rc][n] : n \in act'.T}) IN
        \* marked; whatever was recomputed (the marked ones, and forced objects upstream of them) is un-forced again
        /\ slot'[s].forced = (slot[s].forced \cup M) \ {lastruns'[i] : i \in 1..Len(lastruns')}
        /\ \A d \in Ds \ M : slot'[s].held[d] = slot[s].held[d] \/ (act'.rec /\ slot[s].held[d] = <<>>)
        /\ act'.del /\ ~act'.rec => \A k \in Ks :
              disk'[k] = IF \E d \in M : PersD(d) /\ KeyOf[d] = k THEN <<>> ELSE disk[k]
        /\ ~act'.del /\ ~act'.rec => disk' = disk
        /\ act'.rec => /\ \A d \in M : Cardinality({i \in 1..Len(lastruns') : lastruns'[i] = d}) = 1
                       /\ \A d \in M : slot'[s].held[d] = <<d>>
        /\ ~act'.rec => lastruns' = <<>> /\ \A d \in M : slot'[s].held[d] = <<>>
    ]_vars

\* C13/C07: forcing through a MultiChain reaches every member chain: the closure of T in each member is marked;
\* with recompute every marked object is held again and was run at least once and at most once per member
MultiForceAll ==
  [][ (act'.name = "MultiForce") =>
        LET s == act'.s
            M1 == Down(slot[s].rcs[1], {DescId[slot[s].rcs[1]][n] : n \in act'.T})
            M2 == Down(slot[s].rcs[2], {DescId[slot[s].rcs[2]][n] : n \in act'.T}) IN
        /\ slot'[s].forced = (slot[s].forced \cup M1 \cup M2) \ {lastruns'[i] : i \in 1..Len(lastruns')}
        /\ act'.rec => \A d \in M1 \cup M2 :
              /\ slot'[s].held[d] = <<d>>
              /\ Cardinality({i \in 1..Len(lastruns') : lastruns'[i] = d}) \in 1..2
        /\ ~act'.rec => lastruns' = <<>> /\ \A d \in M1 \cup M2 : slot'[s].held[d] = <<>>
    ]_vars

\* C07: a forced object whose value is requested runs although a result is stored, and replaces it
ForcedRuns ==
  [][ (act'.name = "Request" /\ ~lasterr') =>
        LET s == act'.s
            d == DescId[slot[s].rcs[act'.m]][act'.n] IN
        (d \in slot[s].forced /\ slot[s].held[d] = <<>>) =>
            (\E i \in 1..Len(lastruns') : lastruns'[i] = d) /\ (PersD(d) => disk'[KeyOf[d]] = <<d>>)
    ]_vars

\* C07 "exactly once": a run that succeeded un-forces its object (whatever happens to the object's memory afterwards,
\* the next request is served from the result), a run that failed leaves it forced
ForcedExactlyOnce ==
  [][ \A s \in Slots : \A d \in Ds :
        (d \in slot[s].forced /\ d \notin slot'[s].forced /\ act'.name \in {"Request", "ChainForce", "MultiForce", "MultiForceObj"})
           => (\E i \in 1..Len(lastruns') : lastruns'[i] = d) /\ (PersD(d) => disk'[KeyOf[d]] # <<>>)
    ]_vars

\* C07/C04: unforced, stored, not held: served from storage without any run
UnforcedLoads ==
  [][ (act'.name = "Request") =>
        LET s == act'.s
            d == DescId[slot[s].rcs[act'.m]][act'.n] IN
        (d \notin slot[s].forced /\ PersD(d) /\ disk[KeyOf[d]] # <<>>) => lastruns' = <<>> /\ disk' = disk
    ]_vars

\* a successful request leaves the requested reference value held; if it ran, the result is visible afterwards
\* (a value still held may outlive its file: another chain may have deleted it - found by TLC)
RequestDelivers ==
  [][ (act'.name = "Request" /\ ~lasterr') =>
        LET s == act'.s
            d == DescId[slot[s].rcs[act'.m]][act'.n] IN
        /\ slot'[s].held[d] = <<d>>
        /\ \A i \in 1..Len(lastruns') : PersD(lastruns'[i]) => disk'[KeyOf[lastruns'[i]]] = <<lastruns'[i]>>
    ]_vars

\* C05 at this granularity: a failing call leaves no result for the failing computation or anything above it
FailLeavesNothing ==
  [][ (act'.name = "Request" /\ lasterr') =>
        /\ PersD(act'.f) => disk'[KeyOf[act'.f]] = disk[KeyOf[act'.f]]
        /\ slot'[act'.s].held[act'.f] = <<>>
    ]_vars
=============================================================================
