---------------------------- MODULE CacheTrace ----------------------------
(***************************************************************************)
(* Trace validation (code -> spec) of FileCache under FREE-RUNNING         *)
(* PROCESSES (C15): two or three real processes call get / get_or_compute  *)
(* on one key with the real lock files and no scheduler; every process     *)
(* appends one record per label of Cache.tla to a shared log while it      *)
(* holds the lock that protects the step (lock acquired: after the         *)
(* acquisition; released: before the release), so the order of the log is  *)
(* the order of the steps.  Each recorded event must be the enabled action *)
(* of that caller in the state reached by its predecessors - in particular *)
(* `acq` requires the model's lock to be free, `chk` must report what the  *)
(* model's file state says, and the value a call returns must be the       *)
(* model's ret - and every invariant of Cache.tla is evaluated at every    *)
(* step.  Labels without an event (br, fin) are silent steps.  One TLC     *)
(* start validates all traces (tid is chosen in Init; longest matched      *)
(* prefix per trace in a TLC register).                                    *)
(***************************************************************************)
EXTENDS Cache, IOUtils

Traces == JsonDeserialize(IOEnv.TCVERIF_TRACE_JSON)
ASSUME \A t \in 1..Len(Traces) : TLCSet(t, 0)

VARIABLES tid, l
tvars == <<vars, tid, l>>
Tr == Traces[tid]

TInit == /\ tid \in 1..Len(Traces) /\ l = 1
         /\ Init
         /\ present = Tr.present
         /\ op = [c \in Callers |-> Tr.ops[c]]
         /\ fails = [c \in Callers |-> Tr.fails[c]]

Consume == l' = l + 1 /\ UNCHANGED tid
Stutter == UNCHANGED vars
TStep ==
  /\ l <= Len(Tr.ev)
  /\ LET e == Tr.ev[l]
         c == e[1]
         k == e[2] IN
     /\ Consume
     /\ CASE k = "acq"  -> acq1(c) \/ acq2(c)
          [] k = "chk"  -> chk(c) /\ exists'[c] = e[3]                  \* exists() answered what the model's store says
          [] k = "opnr" -> opnr(c)
          [] k = "rd"   -> rd(c) \/ (pc[c] = "rel1" /\ Stutter)           \* a format read in several pieces
          [] k = "rel"  -> rel1(c) \/ rel2(c) \/ relf(c)
          [] k = "comp" -> comp(c)
          [] k = "opnw" -> opnw(c)
          [] k = "wr"   -> wra(c) \/ wrb(c) \/ (pc[c] = "cls" /\ Stutter)  \* a format written in more than two pieces
          [] k = "cls"  -> cls(c)
          [] k = "ret"  -> pc[c] \in {"fin", "Done"} /\ ret[c] = e[3] /\ Stutter
          [] OTHER -> FALSE
TSilent == /\ UNCHANGED <<tid, l>>
           /\ \E c \in Callers : br(c) \/ fin(c)
TNext == TStep \/ TSilent
TSpec == TInit /\ [][TNext]_tvars

Reach == TLCSet(tid, IF TLCGet(tid) < l - 1 THEN l - 1 ELSE TLCGet(tid))
Verdicts == \A t \in 1..Len(Traces) :
              PrintT("@@" \o ToJson([tag |-> "CV", trace |-> t, matched |-> TLCGet(t), len |-> Len(Traces[t].ev)]))
=============================================================================
