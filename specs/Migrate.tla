------------------------------ MODULE Migrate ------------------------------
(***************************************************************************)
(* migrate_to_parameter_mode (C20): results stored under config names are  *)
(* carried over to the locations parameter mode uses.                      *)
(*                                                                         *)
(* src[t] / dst[t]: is a result of task t visible in the source (name      *)
(* mode) / target (parameter mode) directory; srcv / dstv: a version       *)
(* counter of the stored files (any write bumps it).  TLC explores every   *)
(* subset of stored results and every sequence of dry / real migrations.   *)
(***************************************************************************)
EXTENDS Naturals, Sequences, FiniteSets, TLC, Json

CONSTANTS Tasks, Persisting, MaxSteps, Emit

VARIABLES src, dst, dstWrites, srcWrites, hist
vars == <<src, dst, dstWrites, srcWrites, hist>>

Init == /\ src \in SUBSET Persisting /\ dst = {} /\ dstWrites = 0 /\ srcWrites = 0 /\ hist = <<>>
\* dry run: reports, copies nothing
Dry == /\ Len(hist) < MaxSteps /\ hist' = Append(hist, "dry") /\ UNCHANGED <<src, dst, dstWrites, srcWrites>>
\* real run: every stored source result that the target lacks is copied; nothing else is written; the source is read only
Real == /\ Len(hist) < MaxSteps /\ hist' = Append(hist, "real")
        /\ dst' = dst \cup src
        /\ dstWrites' = dstWrites + Cardinality(src \ dst)
        /\ UNCHANGED <<src, srcWrites>>
Next == Dry \/ Real
Spec == Init /\ [][Next]_vars

\* C20
SourceNeverModified == srcWrites = 0
DryWritesNothing == [][hist' # hist /\ hist'[Len(hist')] = "dry" => dst' = dst /\ dstWrites' = dstWrites]_vars
CarriesExactly == (\E i \in 1..Len(hist) : hist[i] = "real") => dst = src
SecondChangesNothing == [][(hist' # hist /\ hist'[Len(hist')] = "real" /\ \E i \in 1..Len(hist) : hist[i] = "real")
                            => (dst' = dst /\ dstWrites' = dstWrites)]_vars
OnlyBeforeReal == (~\E i \in 1..Len(hist) : hist[i] = "real") => dst = {}

EmitCase == (Emit /\ Len(hist) = MaxSteps) => PrintT("@@" \o ToJson([tag |-> "M", src |-> src, hist |-> hist, dst |-> dst]))
=============================================================================
