------------------------------- MODULE Naming -------------------------------
(***************************************************************************)
(* The naming part of the storage scheme (C12, C01): from a task CLASS to  *)
(* its slug name  group:...:name  and to the directory its results live    *)
(* in.  Frozen as in release 1.4.0:                                        *)
(*   name   Meta.name if given, else the class name split at capitals,     *)
(*          lower-cased, joined by "_", one trailing "_task" removed       *)
(*   group  Task:            Meta.task_group or none                       *)
(*          ModuleTask:      last component of the module DEFINING the     *)
(*                           class (Meta.task_group is ignored)            *)
(*          DoubleModuleTask: Meta.task_group if given, else the last two  *)
(*                           components of the defining module             *)
(*   Meta   a class without a Meta of its own inherits its base's Meta     *)
(*          (name and group included); the module is always its own        *)
(*   dir    the slug with ":" as path separator                            *)
(* TLC enumerates a menu of class descriptors (with and without a base     *)
(* class in another module), prints the expected slug and directory; the   *)
(* harness creates the classes and compares  slugname, group, Task.path    *)
(* and the name the chain registers - evaluating base and subclass in both *)
(* orders (the result must not depend on which class was used first).      *)
(***************************************************************************)
EXTENDS Naturals, Sequences, TLC, Json

CONSTANTS Words,      \* class names as sequences of lower-cased words ("TrainModelTask" = <<"train","model","task">>)
          MetaNames,  \* <<>> (no Meta.name) or <<name>>
          MetaGroups, \* <<>> or <<group>>
          Kinds,      \* "plain", "module", "double"
          Modules,    \* dotted module paths as sequences
          BaseMenu,   \* descriptors used as base classes
          ChildMenu,  \* [words, own (has a Meta of its own), name, group, module]
          Emit

RECURSIVE Join(_, _)
Join(ws, sep) == IF ws = <<>> THEN "" ELSE IF Len(ws) = 1 THEN ws[1] ELSE ws[1] \o sep \o Join(Tail(ws), sep)
Last(s) == s[Len(s)]
LastTwo(s) == IF Len(s) = 1 THEN s ELSE SubSeq(s, Len(s) - 1, Len(s))

\* name derived from the class name: one trailing "task" word is dropped unless it is the only word
ClassName(ws) == IF Len(ws) > 1 /\ Last(ws) = "task" THEN Join(SubSeq(ws, 1, Len(ws) - 1), "_") ELSE Join(ws, "_")

\* effective Meta of a class: its own, or its base's
Name(c)  == IF c.name # <<>> THEN c.name[1] ELSE ClassName(c.words)
Group(c) == CASE c.kind = "plain"  -> IF c.group # <<>> THEN c.group[1] ELSE ""
              [] c.kind = "module" -> Last(c.module)
              [] c.kind = "double" -> IF c.group # <<>> THEN c.group[1] ELSE Join(LastTwo(c.module), ":")
Slug(c) == IF Group(c) = "" THEN Name(c) ELSE Group(c) \o ":" \o Name(c)

\* a subclass: metaclass (kind) inherited; Meta inherited unless it declares one; words and module its own
Sub(b, ch) == [words |-> ch.words, kind |-> b.kind, module |-> ch.module, via |-> "own",
               name |-> IF ch.own THEN ch.name ELSE b.name,
               group |-> IF ch.own THEN ch.group ELSE b.group]

\* via: the Meta attributes are written in the task's Meta itself, or in a base class the Meta derives from
\* (class Meta(CommonMeta)) - the same declaration either way
Plain == {[words |-> w, name |-> n, group |-> g, kind |-> k, module |-> m, via |-> v] :
             w \in Words, n \in MetaNames, g \in MetaGroups, k \in Kinds, m \in Modules, v \in {"own", "basemeta"}}

VARIABLES case
vars == <<case>>
Init == \/ \E c \in Plain : case = [cls |-> c, base |-> <<>>]
        \/ \E b \in BaseMenu, ch \in ChildMenu : case = [cls |-> Sub(b, ch), base |-> <<b>>, child |-> ch]
Next == UNCHANGED vars
Spec == Init /\ [][Next]_vars

\* the group of a module task is taken from ITS OWN module, whatever its base is
ModuleGroupIsOwn == case.cls.kind = "module" => Group(case.cls) = Last(case.cls.module)
\* a class name never yields an empty task name
NameNonEmpty == Name(case.cls) # ""
EmitCase == Emit => PrintT("@@" \o ToJson([tag |-> "Nm", cls |-> case.cls, base |-> case.base,
                                           own |-> IF case.base = <<>> THEN TRUE ELSE case.child.own,
                                           name |-> Name(case.cls), group |-> Group(case.cls), slug |-> Slug(case.cls),
                                           baseslug |-> IF case.base = <<>> THEN "" ELSE Slug(case.base[1])]))
=============================================================================
