----------------------------- MODULE Resolve -----------------------------
(***************************************************************************)
(* Config composition, namespaces and the dependency graph (C08, C09, and  *)
(* the "same tasks" part of C13): the PROPERTY-LEVEL reading of a config   *)
(* forest.                                                                 *)
(*                                                                         *)
(* A forest is: a root file and two pipeline files (tasks, excluded_tasks, *)
(* parameter values, `uses [as ns]`), plus a context (a list of sources,   *)
(* each with global entries, for_namespaces entries and possibly           *)
(* `uses ... as ns` of another context source).  PResolve maps a forest    *)
(* to its resolved chain - tasks, their effective parameter values and the *)
(* wiring of their inputs - or to Error.                                   *)
(*                                                                         *)
(* TLC enumerates the forests as initial states, checks the structural     *)
(* invariants of PResolve on each (no leak, inputs inside their own        *)
(* namespace, closure laws) and prints forest + expected resolution; the   *)
(* harness builds every forest as real files and a real Chain and          *)
(* compares (checks/c08.py, c09.py).                                       *)
(***************************************************************************)
EXTENDS NameRes, TLC, Json, Integers

CONSTANTS RootUsesMenu,   \* menu (a sequence) of `uses` lists: sequences of [f, ns]   (ns = "" : no namespace)
          RootTasksMenu,  \* menu of sets of classes declared by the root file
          P1Menu,         \* menu of records [tasks, excl, vals, uses]
          P2Menu,
          CtxMenu,        \* menu of contexts: sequences of sources [glob, forns, uses]; forns = <<[ns, vals]>>
          Seed, Mod,      \* enumerate the forests whose menu indices satisfy (weighted sum + Seed) % Mod = 0
          Emit

(*************************** task classes **********************************)
\* slug = group path + name; inputs in declaration order; parameters.
\* input kinds: "class"/"name" (required), "opt" (InputTaskParameter with a default), "pattern" (~regex, own namespace)
NoGrp == <<>>
Ref(g, n) == [ns |-> <<>>, grp |-> g, name |-> n]
Classes == {"a", "b", "c", "d", "trainx", "ge", "f", "pat", "cy1", "cy2", "z", "w", "bsub", "both", "both2", "gb", "mi", "selfpat", "ol"}
Slug == [c \in Classes |->
  CASE c = "a" -> Ref(NoGrp, "a")            [] c = "b" -> Ref(NoGrp, "b")
    [] c = "c" -> Ref(NoGrp, "c")            [] c = "d" -> Ref(NoGrp, "d")
    [] c = "trainx" -> Ref(NoGrp, "train_x") [] c = "ge" -> Ref(<<"g">>, "e")
    [] c = "f" -> Ref(NoGrp, "f")            [] c = "pat" -> Ref(NoGrp, "pat")
    [] c = "cy1" -> Ref(NoGrp, "cy1")        [] c = "cy2" -> Ref(NoGrp, "cy2")
    [] c = "z" -> Ref(NoGrp, "z")            [] c = "w" -> Ref(<<"g">>, "a")
    [] c = "both" -> Ref(NoGrp, "both")      [] c = "both2" -> Ref(NoGrp, "both2")
    [] c = "gb" -> Ref(<<"g">>, "b")          \* a grouped namesake of b (another class)
    [] c = "mi" -> Ref(NoGrp, "mi")           \* a class whose Meta INHERITS its input declaration from a base Meta class
    [] c = "ol" -> Ref(NoGrp, "ol")           \* an optional input written INSIDE Meta.input_tasks, in front of a required one
    [] c = "selfpat" -> Ref(<<"h">>, "a")     \* a task named a whose ~pattern input matches every task named a - itself too
    [] c = "bsub" -> Ref(NoGrp, "bsub")]      \* a class DERIVED from b with a Meta of its own: its own name, inputs, no parameters
Inputs == [c \in Classes |->
  CASE c = "b" -> <<[kind |-> "class", ref |-> Ref(NoGrp, "a")]>>
    [] c = "c" -> <<[kind |-> "name", ref |-> Ref(NoGrp, "a")], [kind |-> "opt", ref |-> Ref(NoGrp, "b"), byclass |-> TRUE]>>
    [] c = "mi" -> <<[kind |-> "name", ref |-> Ref(NoGrp, "a")]>>
    [] c = "ol" -> <<[kind |-> "opt", ref |-> Ref(NoGrp, "a"), byclass |-> TRUE], [kind |-> "name", ref |-> Ref(NoGrp, "b")]>>
    [] c = "selfpat" -> <<[kind |-> "pattern", ref |-> Ref(NoGrp, "a")]>>      \* a declared self-cycle: construction fails
    [] c = "d" -> <<[kind |-> "class", ref |-> Ref(NoGrp, "train_x")]>>
    [] c = "f" -> <<[kind |-> "name", ref |-> Ref(NoGrp, "e")]>>
    [] c = "pat" -> <<[kind |-> "pattern", ref |-> Ref(NoGrp, "a")]>>    \* ~(.*:)?a : every task named a, any group
    [] c = "bsub" -> <<[kind |-> "name", ref |-> Ref(NoGrp, "a")]>>
    \* a task and its grouped namesake are two inputs of one dependant, declared in either order
    [] c = "both"  -> <<[kind |-> "name", ref |-> Ref(<<"g">>, "a")], [kind |-> "name", ref |-> Ref(NoGrp, "a")]>>
    [] c = "both2" -> <<[kind |-> "name", ref |-> Ref(NoGrp, "a")], [kind |-> "name", ref |-> Ref(<<"g">>, "a")]>>
    [] c = "cy1" -> <<[kind |-> "name", ref |-> Ref(NoGrp, "cy2")]>>
    [] c = "cy2" -> <<[kind |-> "name", ref |-> Ref(NoGrp, "cy1")]>>
    [] OTHER -> <<>>]
\* parameters: name in the task, name in the config, default (<<>> = required, <<v>> = default v), dtype int?
Params == [c \in Classes |->
  CASE c = "a" -> <<[name |-> "x", cfg |-> "x", def |-> <<>>, int |-> TRUE]>>
    [] c = "b" -> <<[name |-> "y", cfg |-> "y", def |-> <<5>>, int |-> FALSE]>>
    [] c = "w" -> <<[name |-> "x", cfg |-> "xw", def |-> <<0>>, int |-> TRUE]>>
    [] OTHER -> <<>>]
Abstract == [c \in Classes |-> c = "z"]

NotAnInt == 99     \* stands for a string value (values cross the JSON boundary as small integers)
Files == {"R", "P1", "P2"}
VARIABLES rootUses, rootTasks, p1, p2, ctx
vars == <<rootUses, rootTasks, p1, p2, ctx>>

File(f) == CASE f = "R"  -> [tasks |-> rootTasks, excl |-> {}, vals |-> <<>>, uses |-> rootUses]
             [] f = "P1" -> p1
             [] f = "P2" -> p2

RangeOf(s) == {s[i] : i \in 1..Len(s)}
Merge(f, g) == [k \in DOMAIN f \cup DOMAIN g |-> IF k \in DOMAIN g THEN g[k] ELSE f[k]]

(*************************** mounts ****************************************)
\* every mounting of every file with its composed namespace path (a SET: one file twice under one namespace is one mount)
RECURSIVE MountsFrom(_, _, _)
MountsFrom(f, ns, fuel) ==
  {[f |-> f, ns |-> ns]} \cup
  (IF fuel = 0 THEN {} ELSE
   UNION {MountsFrom(u.f, IF u.ns = "" THEN ns ELSE Append(ns, u.ns), fuel - 1) : u \in RangeOf(File(f).uses)})
Mounts == MountsFrom("R", <<>>, 3)

\* tasks a mount declares: non-abstract, non-excluded
DeclaredBy(m) == {c \in File(m.f).tasks : ~Abstract[c] /\ c \notin File(m.f).excl}
Node(ns, c) == [ns |-> ns, c |-> c]
Nodes == UNION {{Node(m.ns, c) : c \in DeclaredBy(m)} : m \in Mounts}
NameOf(n) == [ns |-> n.ns, grp |-> Slug[n.c].grp, name |-> Slug[n.c].name]

\* C09: two different configs declaring one task name in one namespace is a conflict
Conflict == \E m1 \in Mounts, m2 \in Mounts :
               m1 # m2 /\ m1.ns = m2.ns /\
               \E c1 \in DeclaredBy(m1), c2 \in DeclaredBy(m2) : NameOf(Node(m1.ns, c1)) = NameOf(Node(m2.ns, c2))
\* the config that declares a node (unique when there is no conflict)
MountOf(n) == CHOOSE m \in Mounts : m.ns = n.ns /\ n.c \in DeclaredBy(m)

(*************************** context ***************************************)
\* a context source: [glob |-> values for every config, forns |-> [namespace path -> values], uses |-> <<[src, ns]>>]
\* `uses src as ns` inside a context mounts that source under ns: its global entries become entries for ns,
\* its for_namespaces entries move below ns.  Used sources come AFTER the using one (they have higher priority).
\* menus give for_namespaces as a sequence of [ns, vals] pairs (JSON-friendly); as a function from namespace paths:
FornsFn(pairs) == [k \in {pairs[i].ns : i \in 1..Len(pairs)} |->
                     (CHOOSE i \in 1..Len(pairs) : pairs[i].ns = k /\ \A j \in 1..Len(pairs) : pairs[j].ns = k => j <= i)
                     ] 
FornsOf(src) == LET f == FornsFn(src.forns) IN [k \in DOMAIN f |-> src.forns[f[k]].vals]
Prefix(ns, m) == [k \in {ns \o j : j \in DOMAIN m} |-> m[CHOOSE j \in DOMAIN m : ns \o j = k]]
FlattenSrc(src) ==
  LET own == [glob |-> src.glob, forns |-> FornsOf(src)]
      RECURSIVE Used(_)
      Used(i) == IF i > Len(src.uses) THEN <<>>
                 ELSE LET u == src.uses[i]
                          mounted == IF u.ns = ""
                                     THEN [glob |-> u.src.glob, forns |-> FornsOf(u.src)]
                                     ELSE [glob |-> <<>>,
                                           forns |-> Merge(Prefix(<<u.ns>>, FornsOf(u.src)), (<<u.ns>> :> u.src.glob))]
                      IN <<mounted>> \o Used(i + 1)
  IN <<own>> \o Used(1)
RECURSIVE FlatCtx(_)
FlatCtx(srcs) == IF srcs = <<>> THEN <<>> ELSE FlattenSrc(srcs[1]) \o FlatCtx(Tail(srcs))

\* later sources over earlier ones, key by key; for_namespaces merged per namespace, key by key
RECURSIVE MergeCtx(_, _)
MergeCtx(flat, acc) ==
  IF flat = <<>> THEN acc
  ELSE LET s == flat[1]
           fn == [k \in DOMAIN acc.forns \cup DOMAIN s.forns |->
                    IF k \in DOMAIN acc.forns /\ k \in DOMAIN s.forns THEN Merge(acc.forns[k], s.forns[k])
                    ELSE IF k \in DOMAIN s.forns THEN s.forns[k] ELSE acc.forns[k]]
       IN MergeCtx(Tail(flat), [glob |-> Merge(acc.glob, s.glob), forns |-> fn])
TheCtx == MergeCtx(FlatCtx(ctx), [glob |-> <<>>, forns |-> <<>>])

\* C09: the values a config mounted at ns sees: its own, overridden by global context entries, overridden by the
\* context entries for EXACTLY its namespace
Effective(m) ==
  LET base == Merge(File(m.f).vals, TheCtx.glob)
  IN IF m.ns # <<>> /\ m.ns \in DOMAIN TheCtx.forns THEN Merge(base, TheCtx.forns[m.ns]) ELSE base

\* a parameter's value: from the effective values, else the default, else missing; wrong type is an error too
ParamVal(n, p) ==
  LET e == Effective(MountOf(n)) IN
  IF p.cfg \in DOMAIN e THEN (IF p.int /\ e[p.cfg] = NotAnInt THEN [err |-> "type"] ELSE [v |-> e[p.cfg]])
  ELSE IF p.def # <<>> THEN [v |-> p.def[1]]
  ELSE [err |-> "missing"]
ParamErr == \E n \in Nodes : \E i \in 1..Len(Params[n.c]) : "err" \in DOMAIN ParamVal(n, Params[n.c][i])

(*************************** wiring ****************************************)
\* inputs resolve INSIDE the declaring task's own namespace
Siblings(n) == {NameOf(k) : k \in {k \in Nodes : k.ns = n.ns}}
NodeNamed(t) == CHOOSE k \in Nodes : NameOf(k) = t
ResolveIn(n, ref) == PFind([ns |-> n.ns, grp |-> ref.grp, name |-> ref.name], Siblings(n))
\* a reference BY CLASS means the task of that class: its exact slug in the namespace, never a namesake in another group
ByClass(inp) == inp.kind = "class" \/ ("byclass" \in DOMAIN inp /\ inp.byclass)
ExactIn(n, ref) == LET t == [ns |-> n.ns, grp |-> ref.grp, name |-> ref.name] IN IF t \in Siblings(n) THEN t ELSE NotFound

\* one declared input -> sequence of resolved entries: <<node>>, <<"default">> (absent optional), or an error
WireOne(n, inp) ==
  IF inp.kind = "pattern"
  THEN LET S == {k \in Nodes : k.ns = n.ns /\ Slug[k.c].name = inp.ref.name} IN [set |-> S]
  ELSE LET r == IF ByClass(inp) THEN ExactIn(n, inp.ref) ELSE ResolveIn(n, inp.ref) IN
       IF "err" \in DOMAIN r THEN (IF inp.kind = "opt" THEN [absent |-> TRUE] ELSE [err |-> "input"])
       ELSE [node |-> NodeNamed(r)]
InputErr == \E n \in Nodes : \E i \in 1..Len(Inputs[n.c]) : "err" \in DOMAIN WireOne(n, Inputs[n.c][i])

\* the direct inputs of a node (as a set of nodes)
InputsOf(n) == UNION {LET w == WireOne(n, Inputs[n.c][i]) IN
                      IF "node" \in DOMAIN w THEN {w.node} ELSE IF "set" \in DOMAIN w THEN w.set ELSE {}
                      : i \in 1..Len(Inputs[n.c])}
RECURSIVE UpClosure(_, _)
UpClosure(S, fuel) == IF fuel = 0 THEN S ELSE UpClosure(S \cup UNION {InputsOf(k) : k \in S}, fuel - 1)
Required(n) == UpClosure(InputsOf(n), 8)             \* required_tasks: everything upstream
Cyclic == \E n \in Nodes : n \in Required(n)

(*************************** the resolved chain ****************************)
IsError == Conflict \/ ParamErr \/ InputErr \/ Cyclic
ErrorKind == IF Conflict THEN "conflict" ELSE IF ParamErr THEN "param" ELSE IF InputErr THEN "input"
             ELSE IF Cyclic THEN "cycle" ELSE "none"

FullName(n) == NameOf(n)
OutNode(n) ==
  [name |-> FullName(n), cls |-> n.c,
   params |-> [i \in 1..Len(Params[n.c]) |-> [name |-> Params[n.c][i].name, v |-> ParamVal(n, Params[n.c][i]).v]],
   inputs |-> [i \in 1..Len(Inputs[n.c]) |->
                 LET w == WireOne(n, Inputs[n.c][i]) IN
                 IF "node" \in DOMAIN w THEN [one |-> FullName(w.node)]
                 ELSE IF "set" \in DOMAIN w THEN [many |-> {FullName(k) : k \in w.set}]
                 ELSE [absent |-> TRUE]],
   required |-> {FullName(k) : k \in Required(n)}]
Resolved == IF IsError THEN [error |-> ErrorKind] ELSE [tasks |-> {OutNode(n) : n \in Nodes}]

(*************************** enumeration + invariants **********************)
Init == \E i1 \in 1..Len(RootUsesMenu), i2 \in 1..Len(RootTasksMenu), i3 \in 1..Len(P1Menu),
           i4 \in 1..Len(P2Menu), i5 \in 1..Len(CtxMenu) :
          /\ (i1 * 7 + i2 * 11 + i3 * 13 + i4 * 17 + i5 * 19 + Seed) % Mod = 0
          /\ rootUses = RootUsesMenu[i1] /\ rootTasks = RootTasksMenu[i2]
          /\ p1 = P1Menu[i3] /\ p2 = P2Menu[i4] /\ ctx = CtxMenu[i5]
Next == UNCHANGED vars

\* C09 no leak: a parameter value is the declaring file's, a context's (global or exact namespace) or the default
NoLeak == ~IsError => \A n \in Nodes : \A i \in 1..Len(Params[n.c]) :
             LET p == Params[n.c][i]
                 v == ParamVal(n, p).v
                 m == MountOf(n) IN
             \/ (p.cfg \in DOMAIN File(m.f).vals /\ v = File(m.f).vals[p.cfg])
             \/ (p.cfg \in DOMAIN TheCtx.glob /\ v = TheCtx.glob[p.cfg])
             \/ (m.ns \in DOMAIN TheCtx.forns /\ p.cfg \in DOMAIN TheCtx.forns[m.ns] /\ v = TheCtx.forns[m.ns][p.cfg])
             \/ (p.def # <<>> /\ v = p.def[1])
\* C09 precedence: an entry for the exact namespace wins over a global entry, which wins over the file
Precedence == ~IsError => \A n \in Nodes : \A i \in 1..Len(Params[n.c]) :
             LET p == Params[n.c][i]
                 m == MountOf(n) IN
             /\ (m.ns # <<>> /\ m.ns \in DOMAIN TheCtx.forns /\ p.cfg \in DOMAIN TheCtx.forns[m.ns])
                   => ParamVal(n, p).v = TheCtx.forns[m.ns][p.cfg]
             /\ (~(m.ns # <<>> /\ m.ns \in DOMAIN TheCtx.forns /\ p.cfg \in DOMAIN TheCtx.forns[m.ns])
                   /\ p.cfg \in DOMAIN TheCtx.glob) => ParamVal(n, p).v = TheCtx.glob[p.cfg]
\* C08: every edge stays inside the namespace of the declaring task
EdgesLocal == \A n \in Nodes : \A k \in InputsOf(n) : k.ns = n.ns
\* C08: the chain has exactly the declared, non-abstract, non-excluded tasks
TasksExact == \A n \in Nodes : ~Abstract[n.c] /\ \E m \in Mounts : m.ns = n.ns /\ n.c \in File(m.f).tasks \ File(m.f).excl
\* C08: closures are transitive and contain the direct inputs
ClosureLaw == \A n \in Nodes : InputsOf(n) \subseteq Required(n) /\ \A k \in Required(n) : Required(k) \subseteq Required(n)

EmitCase == Emit => PrintT("@@" \o ToJson([tag |-> "R",
                       forest |-> [rootUses |-> rootUses, rootTasks |-> rootTasks, p1 |-> p1, p2 |-> p2, ctx |-> ctx],
                       mounts |-> Mounts, out |-> Resolved]))
=============================================================================
