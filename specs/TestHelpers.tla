---------------------------- MODULE TestHelpers ----------------------------
(***************************************************************************)
(* TestChain / create_test_task (C19): a task placed in a test chain       *)
(* yields what it yields in a real chain given the same parameter values   *)
(* and the same upstream values; mocks supply values, are never run and    *)
(* never stored; a missing input or required parameter is reported when    *)
(* the helper is constructed.                                              *)
(*                                                                         *)
(* Pipeline:  a(x required)  <-  g:b(y default 5; input a by class)        *)
(*            <-  c(inputs: a by name, g:b by class)   d(optional input a) *)
(*            e(optional input a, then required input g:b)                 *)
(* TLC enumerates which tasks are real, which are mocked, which parameters *)
(* are supplied, and prints the expected outcome of every case.            *)
(***************************************************************************)
EXTENDS Naturals, Sequences, FiniteSets, TLC, Json

CONSTANTS Emit
Tasks == {"a", "b", "c", "d", "e"}
Deps  == [t \in Tasks |-> CASE t = "b" -> <<"a">> [] t = "c" -> <<"a", "b">> [] t = "d" -> <<"a">> [] t = "e" -> <<"a", "b">>
                             [] OTHER -> <<>>]
\* optional inputs (InputTaskParameter with a default): d's only input; e's FIRST input, declared in front of a required one
OptIn == [t \in Tasks |-> IF t \in {"d", "e"} THEN {"a"} ELSE {}]
Required == [t \in Tasks |-> IF t = "a" THEN {"x"} ELSE {}]
Defaulted == [t \in Tasks |-> IF t = "b" THEN {"y"} ELSE {}]

VARIABLES real, mocks, given    \* real tasks, mocked tasks, parameter names supplied
vars == <<real, mocks, given>>
Init == /\ real \in (SUBSET Tasks) \ {{}} /\ mocks \in SUBSET (Tasks \ real) /\ given \in SUBSET {"x", "y"}
Next == UNCHANGED vars

Present == real \cup mocks
MissingInput == \E t \in real : \E i \in 1..Len(Deps[t]) : Deps[t][i] \notin Present /\ Deps[t][i] \notin OptIn[t]
MissingParam == \E t \in real : \E p \in Required[t] : p \notin given
IsError == MissingInput \/ MissingParam

\* the value of a task: a mock's supplied value, or the provenance of a real run over the values of its inputs
RECURSIVE Val(_)
Val(t) == IF t \in mocks THEN [mock |-> t]
          ELSE [t |-> t,
                p |-> [q \in (Required[t] \cup Defaulted[t]) |-> IF q \in given THEN "given" ELSE "default"],
                i |-> [k \in 1..Len(Deps[t]) |-> IF Deps[t][k] \in Present THEN Val(Deps[t][k]) ELSE [absent |-> TRUE]]]
Out == IF IsError THEN [error |-> IF MissingInput THEN "input" ELSE "param"]
       ELSE [values |-> [t \in real |-> Val(t)], never_run |-> mocks]

\* C19: mocks are leaves of every value: nothing below a mock is ever evaluated
RECURSIVE MocksAreLeaves(_)
MocksAreLeaves(v) == IF "mock" \in DOMAIN v \/ "absent" \in DOMAIN v THEN TRUE
                     ELSE \A k \in 1..Len(v.i) : MocksAreLeaves(v.i[k])
LeavesOK == ~IsError => \A t \in real : MocksAreLeaves(Val(t))
EmitCase == Emit => PrintT("@@" \o ToJson([tag |-> "T", real |-> real, mocks |-> mocks, given |-> given, out |-> Out]))
=============================================================================
