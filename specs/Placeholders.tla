---------------------------- MODULE Placeholders ----------------------------
(***************************************************************************)
(* Placeholder substitution in config strings (C11).                       *)
(*                                                                         *)
(* Strings are sequences of characters over a small alphabet containing    *)
(* both braces.  PSubst is the property: every occurrence  {NAME}  with a  *)
(* brace-free, defined NAME is replaced, left to right, once; everything   *)
(* else is kept; inserted text is never scanned again.  ISubst transcribes *)
(* the regular expression the code uses; ISubstLazy is the expression of   *)
(* the pinned 1.4.0 code,  {(.*?)} , kept to exhibit its defect on         *)
(* nested braces.  TLC enumerates all strings up to MaxLen x the menu of   *)
(* global_vars and checks ISubst = PSubst.                                 *)
(***************************************************************************)
EXTENDS Naturals, Sequences, TLC, Json

CONSTANTS Alphabet,   \* e.g. {"{", "}", "A", "B", "x"}
          MaxLen,
          GVs,        \* menu: sequence of global_vars, each a sequence of <<name (chars), value (chars)>>
          Emit

VARIABLES s, g
vars == <<s, g>>

Defined(gv, name) == \E i \in 1..Len(gv) : gv[i][1] = name
ValueOf(gv, name) == gv[CHOOSE i \in 1..Len(gv) : gv[i][1] = name][2]
BraceFree(t) == \A i \in 1..Len(t) : t[i] # "{" /\ t[i] # "}"

\* least j >= i with t[j] = c, or 0
RECURSIVE FindFrom(_, _, _)
FindFrom(t, i, c) == IF i > Len(t) THEN 0 ELSE IF t[i] = c THEN i ELSE FindFrom(t, i + 1, c)

(*************************** the property **********************************)
RECURSIVE PScan(_, _, _)
PScan(t, i, gv) ==
  IF i > Len(t) THEN <<>>
  ELSE IF t[i] = "{"
       THEN LET j == FindFrom(t, i + 1, "}") IN
            IF j # 0 /\ BraceFree(SubSeq(t, i + 1, j - 1)) /\ Defined(gv, SubSeq(t, i + 1, j - 1))
            THEN ValueOf(gv, SubSeq(t, i + 1, j - 1)) \o PScan(t, j + 1, gv)      \* replaced; inserted text not rescanned
            ELSE <<t[i]>> \o PScan(t, i + 1, gv)
       ELSE <<t[i]>> \o PScan(t, i + 1, gv)
PSubst(t, gv) == PScan(t, 1, gv)

(*************************** the code's regular expressions ****************)
\* re.subn(r'{([^{}]*)}', ...): at a '{' the match is the brace-free run up to the next brace, if that brace is '}'
RECURSIVE NextBrace(_, _)
NextBrace(t, i) == IF i > Len(t) THEN 0 ELSE IF t[i] \in {"{", "}"} THEN i ELSE NextBrace(t, i + 1)
RECURSIVE IScan(_, _, _)
IScan(t, i, gv) ==
  IF i > Len(t) THEN <<>>
  ELSE IF t[i] = "{"
       THEN LET j == NextBrace(t, i + 1) IN
            IF j # 0 /\ t[j] = "}"
            THEN (IF Defined(gv, SubSeq(t, i + 1, j - 1)) THEN ValueOf(gv, SubSeq(t, i + 1, j - 1)) ELSE SubSeq(t, i, j))
                 \o IScan(t, j + 1, gv)
            ELSE <<t[i]>> \o IScan(t, i + 1, gv)
       ELSE <<t[i]>> \o IScan(t, i + 1, gv)
ISubst(t, gv) == IScan(t, 1, gv)

\* re.subn(r'{(.*?)}', ...) of the pinned code: at a '{' the match runs to the FIRST '}' - braces inside included
RECURSIVE LScan(_, _, _)
LScan(t, i, gv) ==
  IF i > Len(t) THEN <<>>
  ELSE IF t[i] = "{"
       THEN LET j == FindFrom(t, i + 1, "}") IN
            IF j # 0
            THEN (IF Defined(gv, SubSeq(t, i + 1, j - 1)) THEN ValueOf(gv, SubSeq(t, i + 1, j - 1)) ELSE SubSeq(t, i, j))
                 \o LScan(t, j + 1, gv)
            ELSE <<t[i]>> \o LScan(t, i + 1, gv)
       ELSE <<t[i]>> \o LScan(t, i + 1, gv)
ISubstLazy(t, gv) == LScan(t, 1, gv)

\* does the regular expression match anywhere (then the code wraps the result so that its repr keeps the original)
RECURSIVE HasMatch(_, _)
HasMatch(t, i) == IF i > Len(t) THEN FALSE
                  ELSE IF t[i] = "{" /\ NextBrace(t, i + 1) # 0 /\ t[NextBrace(t, i + 1)] = "}" THEN TRUE
                  ELSE HasMatch(t, i + 1)

(*************************** enumeration ***********************************)
RECURSIVE Strings(_)
Strings(n) == IF n = 0 THEN {<<>>} ELSE LET S == Strings(n - 1) IN S \cup {Append(t, c) : t \in {u \in S : Len(u) = n - 1}, c \in Alphabet}
Init == s \in Strings(MaxLen) /\ g \in 1..Len(GVs)
Next == UNCHANGED vars

SubstConforms == ISubst(s, GVs[g]) = PSubst(s, GVs[g])
LazyConforms  == ISubstLazy(s, GVs[g]) = PSubst(s, GVs[g])      \* violated: nested braces (see DESIGN.md)
\* nothing defined to replace => nothing changes
UntouchedWithoutDefined == (\A i \in 1..Len(GVs[g]) : \A k \in 1..Len(s) :
                              ~(k + Len(GVs[g][i][1]) + 1 <= Len(s) /\ s[k] = "{"
                                /\ SubSeq(s, k + 1, k + Len(GVs[g][i][1])) = GVs[g][i][1]
                                /\ s[k + Len(GVs[g][i][1]) + 1] = "}"))
                           => PSubst(s, GVs[g]) = s
RECURSIVE Join(_)
Join(t) == IF t = <<>> THEN "" ELSE t[1] \o Join(Tail(t))
EmitCase == Emit => PrintT("@@" \o ToJson([tag |-> "P", s |-> Join(s), g |-> g, out |-> Join(PSubst(s, GVs[g])),
                                           wrapped |-> HasMatch(s, 1), lazy |-> Join(ISubstLazy(s, GVs[g]))]))
=============================================================================
