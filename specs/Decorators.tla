----------------------------- MODULE Decorators -----------------------------
(***************************************************************************)
(* Two small decorators of utils/clazz.py, outside the twenty listed       *)
(* properties (the specification keeps growing with the system):           *)
(*                                                                         *)
(* persistent      - a method is executed once per object; the value is    *)
(*                   kept on the object; a None result is NOT kept (the    *)
(*                   code tests `is None`), so it is computed again        *)
(* repeat_on_error - a call is retried up to Retries times; the waiting    *)
(*                   time is multiplied by Extension after every failure;  *)
(*                   the last failure propagates                           *)
(***************************************************************************)
EXTENDS Naturals, Sequences, TLC, Json

CONSTANTS Retries, MaxCalls, Emit

(* ---- repeat_on_error: the outcome of every attempt is chosen by the environment ---- *)
VARIABLES outcomes,   \* sequence of BOOLEAN: does attempt i succeed
          attempt, waits, result      \* result: "pending" | "ok" | "raised"
varsR == <<outcomes, attempt, waits, result>>
InitR == /\ outcomes \in [1..Retries -> BOOLEAN] /\ attempt = 0 /\ waits = 0 /\ result = "pending"
Try == /\ result = "pending" /\ attempt < Retries
       /\ attempt' = attempt + 1
       /\ IF outcomes[attempt + 1] THEN result' = "ok" /\ waits' = waits
          ELSE IF attempt + 1 = Retries THEN result' = "raised" /\ waits' = waits
          ELSE result' = "pending" /\ waits' = waits + 1
       /\ UNCHANGED outcomes
\* the call succeeds iff some attempt succeeds; it makes exactly (first success) attempts, sleeps once per failure before
FirstOk == IF \E i \in 1..Retries : outcomes[i] THEN CHOOSE i \in 1..Retries : outcomes[i] /\ \A j \in 1..(i - 1) : ~outcomes[j] ELSE 0
RetryCorrect == result # "pending" =>
                  /\ (result = "ok") <=> (FirstOk # 0)
                  /\ attempt = (IF FirstOk # 0 THEN FirstOk ELSE Retries)
                  /\ waits = attempt - 1
EmitR == (Emit /\ result # "pending") => PrintT("@@" \o ToJson([tag |-> "R", outcomes |-> outcomes, result |-> result,
                                                                 attempts |-> attempt, waits |-> waits]))

(* ---- persistent: a sequence of calls on one object; each execution returns a value or None ---- *)
VARIABLES returnsNone,  \* sequence of BOOLEAN: does execution i return None
          calls, execs, stored
varsP == <<returnsNone, calls, execs, stored>>
InitP == /\ returnsNone \in [1..MaxCalls -> BOOLEAN] /\ calls = 0 /\ execs = 0 /\ stored = FALSE
Call == /\ calls < MaxCalls /\ calls' = calls + 1
        /\ IF stored THEN UNCHANGED <<execs, stored>>
           ELSE execs' = execs + 1 /\ stored' = ~returnsNone[execs + 1]
        /\ UNCHANGED returnsNone
\* once a non-None value was produced the method is never executed again
OnceStored == stored => execs = (CHOOSE i \in 1..MaxCalls : ~returnsNone[i] /\ \A j \in 1..(i - 1) : returnsNone[j])
EmitP == (Emit /\ calls = MaxCalls) => PrintT("@@" \o ToJson([tag |-> "P", returnsNone |-> returnsNone, execs |-> execs]))

vars == <<varsR, varsP>>
Init == InitR /\ InitP
Next == (Try /\ UNCHANGED varsP) \/ (Call /\ UNCHANGED varsR)
=============================================================================
