----------------------------- MODULE StoreTrace -----------------------------
(***************************************************************************)
(* Trace validation (code -> spec) of Task.data's decision logic on the    *)
(* executions of the repository's OWN test-suite, one trace per test,      *)
(* recorded by harness/tcverif/pytest_trace.py at the observation          *)
(* boundary (no source hook).  Thousands of events are validated in one    *)
(* TLC start: the trace index tid is chosen in Init, every event must be   *)
(* enabled in the state reached by its predecessors; the longest matched   *)
(* prefix per trace is kept in a TLC register and reported at the end.     *)
(*                                                                         *)
(* What an accepted trace establishes, at EVERY step of EVERY test:        *)
(*   - exists() answers consistently with the saves / deletes seen (C05)   *)
(*   - a result is loaded only if it is visible, the task not forced and   *)
(*     nothing is held (C04, C07)                                          *)
(*   - run is entered only if nothing is held and the result is missing or *)
(*     the task forced (C04, C07); a held task does nothing at all         *)
(*   - a result is saved only inside the request of its task, after run    *)
(*     was entered (C05); a request that raised leaves the task empty      *)
(***************************************************************************)
EXTENDS Naturals, Sequences, FiniteSets, TLC, Json, IOUtils

CONSTANTS MaxTask, MaxLoc

Traces == JsonDeserialize(IOEnv.TCVERIF_TRACE_JSON)
ASSUME \A t \in 1..Len(Traces) : TLCSet(t, 0)

VARIABLES tid, l, vis, held, forced, stack
vars == <<tid, l, vis, held, forced, stack>>
Tr == Traces[tid]
Ev == Tr[l]

\* a frame of the request stack: [t, heldAtBegin, sawTrue (exists() answered TRUE in this request), loaded, ran, done]
Frame(t) == [t |-> t, h |-> t \in held, sawTrue |-> FALSE, loaded |-> FALSE, ran |-> FALSE, done |-> FALSE, n |-> 0]
Top == stack[Len(stack)]
SetTop(f) == [stack EXCEPT ![Len(stack)] = f]
InFrameOf(t) == stack # <<>> /\ Top.t = t
Bump(f) == [f EXCEPT !.n = @ + 1]

Init == /\ tid \in 1..Len(Traces) /\ l = 1
        /\ vis = [x \in 1..MaxLoc |-> "unknown"] /\ held = {} /\ forced = {} /\ stack = <<>>

Step ==
  /\ l <= Len(Tr)
  /\ l' = l + 1 /\ UNCHANGED tid
  /\ LET e == Ev IN
     CASE e[1] = "DB" ->
            /\ stack' = Append(stack, Frame(e[2])) /\ UNCHANGED <<vis, held, forced>>
       [] e[1] = "E" ->      \* exists() must agree with what was saved / deleted so far
            /\ vis[e[3]] = "unknown" \/ (e[4] <=> vis[e[3]] = "yes")
            /\ vis' = [vis EXCEPT ![e[3]] = IF e[4] THEN "yes" ELSE "no"]
            /\ stack' = IF InFrameOf(e[2]) THEN SetTop(Bump([Top EXCEPT !.sawTrue = e[4]])) ELSE stack
            /\ UNCHANGED <<held, forced>>
       [] e[1] = "L" ->      \* load: visible, not forced, nothing held, decided inside the task's own request
            /\ InFrameOf(e[2])
            /\ \/ /\ Top.sawTrue /\ ~Top.h /\ e[2] \notin forced /\ ~Top.ran
                  /\ vis[e[3]] # "no"
                  /\ stack' = SetTop(Bump([Top EXCEPT !.loaded = TRUE]))
               \/ \* a lazily read result (GeneratedDataLazy.save) re-opens what this very request has just written
                  /\ Top.ran /\ Top.done
                  /\ stack' = SetTop(Bump(Top))
            /\ UNCHANGED <<vis, held, forced>>
       [] e[1] = "R" ->      \* run: nothing held, not loaded, and the result is missing or the task forced
            /\ InFrameOf(e[2]) /\ ~Top.h /\ ~Top.loaded /\ ~Top.ran
            /\ ~Top.sawTrue \/ e[2] \in forced
            /\ stack' = SetTop(Bump([Top EXCEPT !.ran = TRUE]))
            /\ UNCHANGED <<vis, held, forced>>
       [] e[1] = "P" ->
            /\ InFrameOf(e[2]) /\ Top.ran
            /\ stack' = SetTop(Bump([Top EXCEPT !.done = TRUE]))
            /\ UNCHANGED <<vis, held, forced>>
       [] e[1] = "S" ->      \* a result becomes visible only inside its task's request, after run was entered
            /\ InFrameOf(e[2]) /\ Top.ran
            /\ vis' = IF e[4] THEN [vis EXCEPT ![e[3]] = "yes"] ELSE vis     \* (resumable data publishes in finished())
            /\ stack' = SetTop(Bump(Top)) /\ UNCHANGED <<held, forced>>
       [] e[1] = "D" ->
            /\ vis' = [vis EXCEPT ![e[3]] = "no"] /\ UNCHANGED <<held, forced, stack>>
       [] e[1] = "X" ->
            /\ InFrameOf(e[2]) /\ Top.ran
            /\ stack' = SetTop(Bump(Top)) /\ UNCHANGED <<vis, held, forced>>
       [] e[1] = "F" ->
            /\ forced' = forced \cup {e[2]} /\ held' = held \ {e[2]} /\ UNCHANGED <<vis, stack>>
       [] e[1] = "Z" ->      \* reset_data(): the object forgets its value (forced stays, the store is untouched)
            /\ held' = held \ {e[2]} /\ UNCHANGED <<vis, forced, stack>>
       [] e[1] = "DE" ->     \* the request returns: a value is held; a task that held one did nothing at all
            /\ InFrameOf(e[2])
            /\ Top.h => Top.n = 0
            /\ ~Top.h => (Top.loaded \/ Top.done)
            /\ stack' = SubSeq(stack, 1, Len(stack) - 1) /\ held' = held \cup {e[2]}
            /\ forced' = IF Top.done THEN forced \ {e[2]} ELSE forced    \* a recomputation that succeeded un-forces the task
            /\ UNCHANGED vis
       [] e[1] = "DX" ->     \* the request raised: nothing is held afterwards
            /\ InFrameOf(e[2])
            /\ stack' = SubSeq(stack, 1, Len(stack) - 1) /\ held' = held \ {e[2]}
            /\ UNCHANGED <<vis, forced>>
Next == Step
Spec == Init /\ [][Next]_vars

\* the longest matched prefix of every trace (register tid), updated on every reachable state
Reach == TLCSet(tid, IF TLCGet(tid) < l - 1 THEN l - 1 ELSE TLCGet(tid))
Verdicts == \A t \in 1..Len(Traces) :
              PrintT("@@" \o ToJson([tag |-> "TV", trace |-> t, matched |-> TLCGet(t), len |-> Len(Traces[t])]))
=============================================================================
