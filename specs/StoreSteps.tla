---------------------------- MODULE StoreSteps ----------------------------
(***************************************************************************)
(* Computing and storing ONE result, at the granularity of the file-system *)
(* operations the implementation performs (C05): failure and crash         *)
(* atomicity.                                                              *)
(*                                                                         *)
(* The protocols are not written down here by hand: they are RECORDED from *)
(* the real code (harness/tcverif/fsops.py records every file operation of *)
(* a value request per data kind, on first computation, on forced          *)
(* recomputation over an existing result, and for every way run / type     *)
(* checking / serialisation can raise) and abstracted to operations on     *)
(* three objects of the task directory:                                    *)
(*      final  - the location later chains look at (has_data, load)        *)
(*      tmp    - any work file / work directory                            *)
(*      err    - the directory failed work is set aside in                 *)
(*      old    - a previous result moved aside while it is replaced        *)
(* This module gives the operations their meaning, lets the process die    *)
(* before every one of them (and in the middle of every file write), and   *)
(* states what a later chain may find.  TLC explores every crash point of  *)
(* every recorded protocol; the same crash points are then replayed on the *)
(* real code.                                                              *)
(***************************************************************************)
EXTENDS Naturals, Sequences, TLC, Json

CONSTANTS Protos,   \* sequence of [name, kind, init, outcome, ops]; ops: sequence of [op, o, last]
          Emit

Objs == {"final", "tmp", "err", "old"}     \* old: a previous result moved aside before it is deleted
\* state of an object: "absent" | "partial" (visible but incomplete: being written, or being deleted)
\*                   | "old" (the complete previous result) | "new" (the complete result of this computation)
Complete(s) == s \in {"old", "new"}

VARIABLES p,      \* which protocol
          pc,     \* next operation
          st,     \* st[o]: state of object o
          phase   \* "run" | "dead" (process died) | "done" (call returned or raised) | "recovered"
vars == <<p, pc, st, phase>>

Ops == Protos[p].ops

(* meaning of the abstract operations *)
Apply(s, x) ==
  CASE x.op = "WB" -> [s EXCEPT ![x.o] = "partial"]                        \* open for writing: create / truncate
    [] x.op = "WE" -> [s EXCEPT ![x.o] = IF x.last THEN "new" ELSE "partial"]  \* the file is written and closed
    [] x.op = "MK" -> [s EXCEPT ![x.o] = IF x.last THEN "new" ELSE "partial"]  \* mkdir of / inside the object
    [] x.op = "MV" -> [s EXCEPT ![x.to] = s[x.o], ![x.o] = "absent"]        \* rename: atomic
    [] x.op = "RM" -> [s EXCEPT ![x.o] = "absent"]                          \* unlink of a single-file object: atomic
    [] x.op = "RB" -> [s EXCEPT ![x.o] = IF s[x.o] = "absent" THEN "absent" ELSE "partial"]  \* rmtree begins
    [] x.op = "RS" -> s                                                     \* one inner deletion step
    [] x.op = "RE" -> [s EXCEPT ![x.o] = "absent"]                          \* rmtree finished
    [] OTHER -> s                                                           \* operations on side files

Init == /\ p \in 1..Len(Protos) /\ pc = 1 /\ phase = "run"
        /\ st = [final |-> Protos[p].init, tmp |-> Protos[p].pre.tmp, err |-> Protos[p].pre.err,
                 old |-> Protos[p].pre.old]      \* leftovers of earlier calls are part of the recorded precondition
Step    == phase = "run" /\ pc <= Len(Ops) /\ st' = Apply(st, Ops[pc]) /\ pc' = pc + 1 /\ UNCHANGED <<p, phase>>
Return  == phase = "run" /\ pc > Len(Ops) /\ phase' = "done" /\ UNCHANGED <<p, pc, st>>
Crash   == phase = "run" /\ phase' = "dead" /\ UNCHANGED <<p, pc, st>>      \* before any operation, and between WB and WE
\* a later chain: loads what is visible, otherwise computes (the fault-free protocol, replayed for real by the harness)
Visible == st.final # "absent"
Recover == phase \in {"dead", "done"} /\ phase' = "recovered"
           /\ st' = (IF Visible THEN st ELSE [st EXCEPT !.final = "new"])
           /\ UNCHANGED <<p, pc>>
Next == Step \/ Return \/ Crash \/ Recover
Spec == Init /\ [][Next]_vars

(*************************** C05 *******************************************)
\* whenever the computing process is gone, what is visible is complete
VisibleIsComplete == phase \in {"dead", "done", "recovered"} => (Visible => Complete(st.final))
\* a call that returned normally has stored the new result
DoneMeansStored   == (phase = "done" /\ Protos[p].outcome = "ok" /\ Protos[p].kind # "continues") => st.final = "new"
\* a call that raised published nothing new
FailPublishesNothing == (phase = "done" /\ Protos[p].outcome = "fail") => st.final # "new"
\* a later chain always ends up with a complete result
Recoverable       == phase = "recovered" => Complete(st.final)
\* work directories: failed directory tasks are set aside, resumable ones are kept
WorkDirs == (phase = "done" /\ Protos[p].outcome = "fail") =>
               /\ Protos[p].kind = "dir" => (st.err # "absent" /\ st.tmp = "absent")
               /\ Protos[p].kind = "continues" => st.tmp # "absent"

\* generation: print every crash point at which something incomplete is visible (never stops the run)
EmitBad == (Emit /\ phase \in {"dead", "done"} /\ Visible /\ ~Complete(st.final)) =>
              PrintT("@@" \o ToJson([tag |-> "B", proto |-> Protos[p].name, pc |-> pc, phase |-> phase, st |-> st]))
EmitAll == (Emit /\ phase = "dead") =>
              PrintT("@@" \o ToJson([tag |-> "C", proto |-> Protos[p].name, pc |-> pc, st |-> st]))
=============================================================================
