------------------------------- MODULE Cache -------------------------------
(***************************************************************************)
(* File caches under concurrent use (C15) - FileCache.get and              *)
(* FileCache.get_or_compute of cache.py, one label per point at which      *)
(* another thread or process can observe or change the shared state:       *)
(*                                                                         *)
(*   acquire lock . exists? . [open for reading . read] . release lock     *)
(*   . acquire lock . compute . open for writing (truncates) . write .     *)
(*   write . close . release lock                                          *)
(* (The pinned 1.4.0 code read OUTSIDE the lock; the deterministic         *)
(* scheduler found a reader of a multi-read format - .npy - returning the  *)
(* header of one writer with the data of the next.  Repaired: fix commit.) *)
(*                                                                         *)
(* The file is a sequence of blocks <<writer, index>>; a complete entry is *)
(* both blocks of one writer.  Values are identified with the caller that  *)
(* computed them (0 = an entry stored before the callers started).         *)
(*                                                                         *)
(* The same labels are the yield points of the deterministic scheduler     *)
(* (harness/tcverif/cache_sched.py) that drives real threads through the   *)
(* behaviours TLC explores.                                                *)
(***************************************************************************)
EXTENDS Naturals, Sequences, FiniteSets, TLC, Json

CONSTANTS Callers,       \* e.g. 1..2
          OpChoices,     \* the operations a caller may perform: subset of {"get", "goc", "force"}
          InitPresent,   \* set of BOOLEAN: is a complete entry stored beforehand
          FailChoices,   \* set of BOOLEAN: may a caller's computation raise
          Emit

NoVal == 99   \* get's "nothing cached"
ErrVal == 98  \* the caller's own computation raised: the call raises, nothing is stored, an entry that was there stays
Hole  == <<0, 0>>
Overlay(f, pos, blk) ==
  [i \in 1..(IF pos > Len(f) THEN pos ELSE Len(f)) |-> IF i = pos THEN blk ELSE IF i <= Len(f) THEN f[i] ELSE Hole]
Complete(f) == Len(f) = 2 /\ f[1][2] = 1 /\ f[2][2] = 2 /\ f[1][1] = f[2][1]
Old == <<<<0, 1>>, <<0, 2>>>>

(* --algorithm Cache
variables
  present \in InitPresent,                 \* does the cache file exist
  file = IF present THEN Old ELSE <<>>,    \* its content
  lock = 0,                                \* holder of the lock file (0 = free)
  op \in [Callers -> OpChoices],           \* what each caller does
  fails \in [Callers -> FailChoices],      \* whose computation raises
  computed = IF present THEN {0} ELSE {},  \* values whose computation has completed
  ret = [c \in Callers |-> 0],             \* 0 = not returned yet, NoVal, or 100 + value
  didCompute = [c \in Callers |-> FALSE],
  started = {},                            \* callers that have begun
  completeAtStart = [c \in Callers |-> FALSE],   \* a complete entry was stored when the caller began ...
  disturbed = [c \in Callers |-> FALSE],   \* ... and some other caller has touched the file since
  returnedBefore = [c \in Callers |-> FALSE];    \* some call had already returned when the caller began

define
  Mark(w) == [c \in Callers |-> IF c # w /\ c \in started /\ ret[c] = 0 THEN TRUE ELSE disturbed[c]]
end define;

process caller \in Callers
variables exists = FALSE, content = <<>>, got = FALSE;
begin
  acq1:  await lock = 0;
         lock := self;
         started := started \cup {self};
         completeAtStart[self] := present /\ Complete(file);
         returnedBefore[self] := \E c \in Callers : ret[c] # 0;
  chk:   exists := present;
  br:    if exists /\ op[self] # "force" then
  opnr:     skip;                            \* open for reading - still under the lock (as repaired, see DESIGN.md 0.4)
  rd:       content := file;
            if Complete(content) then
              ret[self] := 100 + content[1][1];
              got := TRUE;
            elsif op[self] = "get" then
              ret[self] := NoVal;             \* unreadable entry: get reports nothing cached
              got := TRUE;
            end if;
         elsif op[self] = "get" then
            ret[self] := NoVal;
            got := TRUE;
         end if;
  rel1:  lock := 0;
         if got then
           goto fin;
         end if;
  acq2:  await lock = 0;
         lock := self;
  comp:  didCompute[self] := TRUE;
         if fails[self] then
           goto relf;                            \* the computer raised: nothing is opened, truncated or written
         else
           computed := computed \cup {self};     \* the computation itself is complete here
         end if;
  opnw:  present := TRUE;
         file := <<>>;
         disturbed := Mark(self);
  wra:   file := Overlay(file, 1, <<self, 1>>);
         disturbed := Mark(self);
  wrb:   file := Overlay(file, 2, <<self, 2>>);
         disturbed := Mark(self);
  cls:   skip;                                   \* close: the buffered data is on disk
  rel2:  lock := 0;
         ret[self] := 100 + self;
         goto fin;
  relf:  lock := 0;
         ret[self] := ErrVal;
  fin:   skip;
end process;
end algorithm; *)
\* BEGIN TRANSLATION
VARIABLES pc, present, file, lock, op, fails, computed, ret, didCompute, 
          started, completeAtStart, disturbed, returnedBefore

(* define statement *)
Mark(w) == [c \in Callers |-> IF c # w /\ c \in started /\ ret[c] = 0 THEN TRUE ELSE disturbed[c]]

VARIABLES exists, content, got

vars == << pc, present, file, lock, op, fails, computed, ret, didCompute, 
           started, completeAtStart, disturbed, returnedBefore, exists, 
           content, got >>

ProcSet == (Callers)

Init == (* Global variables *)
        /\ present \in InitPresent
        /\ file = IF present THEN Old ELSE <<>>
        /\ lock = 0
        /\ op \in [Callers -> OpChoices]
        /\ fails \in [Callers -> FailChoices]
        /\ computed = IF present THEN {0} ELSE {}
        /\ ret = [c \in Callers |-> 0]
        /\ didCompute = [c \in Callers |-> FALSE]
        /\ started = {}
        /\ completeAtStart = [c \in Callers |-> FALSE]
        /\ disturbed = [c \in Callers |-> FALSE]
        /\ returnedBefore = [c \in Callers |-> FALSE]
        (* Process caller *)
        /\ exists = [self \in Callers |-> FALSE]
        /\ content = [self \in Callers |-> <<>>]
        /\ got = [self \in Callers |-> FALSE]
        /\ pc = [self \in ProcSet |-> "acq1"]

acq1(self) == /\ pc[self] = "acq1"
              /\ lock = 0
              /\ lock' = self
              /\ started' = (started \cup {self})
              /\ completeAtStart' = [completeAtStart EXCEPT ![self] = present /\ Complete(file)]
              /\ returnedBefore' = [returnedBefore EXCEPT ![self] = \E c \in Callers : ret[c] # 0]
              /\ pc' = [pc EXCEPT ![self] = "chk"]
              /\ UNCHANGED << present, file, op, fails, computed, ret, 
                              didCompute, disturbed, exists, content, got >>

chk(self) == /\ pc[self] = "chk"
             /\ exists' = [exists EXCEPT ![self] = present]
             /\ pc' = [pc EXCEPT ![self] = "br"]
             /\ UNCHANGED << present, file, lock, op, fails, computed, ret, 
                             didCompute, started, completeAtStart, disturbed, 
                             returnedBefore, content, got >>

br(self) == /\ pc[self] = "br"
            /\ IF exists[self] /\ op[self] # "force"
                  THEN /\ pc' = [pc EXCEPT ![self] = "opnr"]
                       /\ UNCHANGED << ret, got >>
                  ELSE /\ IF op[self] = "get"
                             THEN /\ ret' = [ret EXCEPT ![self] = NoVal]
                                  /\ got' = [got EXCEPT ![self] = TRUE]
                             ELSE /\ TRUE
                                  /\ UNCHANGED << ret, got >>
                       /\ pc' = [pc EXCEPT ![self] = "rel1"]
            /\ UNCHANGED << present, file, lock, op, fails, computed, 
                            didCompute, started, completeAtStart, disturbed, 
                            returnedBefore, exists, content >>

opnr(self) == /\ pc[self] = "opnr"
              /\ TRUE
              /\ pc' = [pc EXCEPT ![self] = "rd"]
              /\ UNCHANGED << present, file, lock, op, fails, computed, ret, 
                              didCompute, started, completeAtStart, disturbed, 
                              returnedBefore, exists, content, got >>

rd(self) == /\ pc[self] = "rd"
            /\ content' = [content EXCEPT ![self] = file]
            /\ IF Complete(content'[self])
                  THEN /\ ret' = [ret EXCEPT ![self] = 100 + content'[self][1][1]]
                       /\ got' = [got EXCEPT ![self] = TRUE]
                  ELSE /\ IF op[self] = "get"
                             THEN /\ ret' = [ret EXCEPT ![self] = NoVal]
                                  /\ got' = [got EXCEPT ![self] = TRUE]
                             ELSE /\ TRUE
                                  /\ UNCHANGED << ret, got >>
            /\ pc' = [pc EXCEPT ![self] = "rel1"]
            /\ UNCHANGED << present, file, lock, op, fails, computed, 
                            didCompute, started, completeAtStart, disturbed, 
                            returnedBefore, exists >>

rel1(self) == /\ pc[self] = "rel1"
              /\ lock' = 0
              /\ IF got[self]
                    THEN /\ pc' = [pc EXCEPT ![self] = "fin"]
                    ELSE /\ pc' = [pc EXCEPT ![self] = "acq2"]
              /\ UNCHANGED << present, file, op, fails, computed, ret, 
                              didCompute, started, completeAtStart, disturbed, 
                              returnedBefore, exists, content, got >>

acq2(self) == /\ pc[self] = "acq2"
              /\ lock = 0
              /\ lock' = self
              /\ pc' = [pc EXCEPT ![self] = "comp"]
              /\ UNCHANGED << present, file, op, fails, computed, ret, 
                              didCompute, started, completeAtStart, disturbed, 
                              returnedBefore, exists, content, got >>

comp(self) == /\ pc[self] = "comp"
              /\ didCompute' = [didCompute EXCEPT ![self] = TRUE]
              /\ IF fails[self]
                    THEN /\ pc' = [pc EXCEPT ![self] = "relf"]
                         /\ UNCHANGED computed
                    ELSE /\ computed' = (computed \cup {self})
                         /\ pc' = [pc EXCEPT ![self] = "opnw"]
              /\ UNCHANGED << present, file, lock, op, fails, ret, started, 
                              completeAtStart, disturbed, returnedBefore, 
                              exists, content, got >>

opnw(self) == /\ pc[self] = "opnw"
              /\ present' = TRUE
              /\ file' = <<>>
              /\ disturbed' = Mark(self)
              /\ pc' = [pc EXCEPT ![self] = "wra"]
              /\ UNCHANGED << lock, op, fails, computed, ret, didCompute, 
                              started, completeAtStart, returnedBefore, exists, 
                              content, got >>

wra(self) == /\ pc[self] = "wra"
             /\ file' = Overlay(file, 1, <<self, 1>>)
             /\ disturbed' = Mark(self)
             /\ pc' = [pc EXCEPT ![self] = "wrb"]
             /\ UNCHANGED << present, lock, op, fails, computed, ret, 
                             didCompute, started, completeAtStart, 
                             returnedBefore, exists, content, got >>

wrb(self) == /\ pc[self] = "wrb"
             /\ file' = Overlay(file, 2, <<self, 2>>)
             /\ disturbed' = Mark(self)
             /\ pc' = [pc EXCEPT ![self] = "cls"]
             /\ UNCHANGED << present, lock, op, fails, computed, ret, 
                             didCompute, started, completeAtStart, 
                             returnedBefore, exists, content, got >>

cls(self) == /\ pc[self] = "cls"
             /\ TRUE
             /\ pc' = [pc EXCEPT ![self] = "rel2"]
             /\ UNCHANGED << present, file, lock, op, fails, computed, ret, 
                             didCompute, started, completeAtStart, disturbed, 
                             returnedBefore, exists, content, got >>

rel2(self) == /\ pc[self] = "rel2"
              /\ lock' = 0
              /\ ret' = [ret EXCEPT ![self] = 100 + self]
              /\ pc' = [pc EXCEPT ![self] = "fin"]
              /\ UNCHANGED << present, file, op, fails, computed, didCompute, 
                              started, completeAtStart, disturbed, 
                              returnedBefore, exists, content, got >>

relf(self) == /\ pc[self] = "relf"
              /\ lock' = 0
              /\ ret' = [ret EXCEPT ![self] = ErrVal]
              /\ pc' = [pc EXCEPT ![self] = "fin"]
              /\ UNCHANGED << present, file, op, fails, computed, didCompute, 
                              started, completeAtStart, disturbed, 
                              returnedBefore, exists, content, got >>

fin(self) == /\ pc[self] = "fin"
             /\ TRUE
             /\ pc' = [pc EXCEPT ![self] = "Done"]
             /\ UNCHANGED << present, file, lock, op, fails, computed, ret, 
                             didCompute, started, completeAtStart, disturbed, 
                             returnedBefore, exists, content, got >>

caller(self) == acq1(self) \/ chk(self) \/ br(self) \/ opnr(self)
                   \/ rd(self) \/ rel1(self) \/ acq2(self) \/ comp(self)
                   \/ opnw(self) \/ wra(self) \/ wrb(self) \/ cls(self)
                   \/ rel2(self) \/ relf(self) \/ fin(self)

(* Allow infinite stuttering to prevent deadlock on termination. *)
Terminating == /\ \A self \in ProcSet: pc[self] = "Done"
               /\ UNCHANGED vars

Next == (\E self \in Callers: caller(self))
           \/ Terminating

Spec == Init /\ [][Next]_vars

Termination == <>(\A self \in ProcSet: pc[self] = "Done")

\* END TRANSLATION

(*************************** C15 *******************************************)
AllDone == \A c \in Callers : pc[c] = "Done"
\* every call returns a value produced by a complete computation for the key (get: or "nothing cached")
ReturnsCompleted == \A c \in Callers : ret[c] # 0 =>
                       \/ (ret[c] = NoVal /\ op[c] = "get")
                       \/ (ret[c] >= 100 /\ (ret[c] - 100) \in computed)
                       \/ (ret[c] = ErrVal /\ fails[c] /\ didCompute[c])      \* only its OWN computation makes a call fail
\* at quiescence the stored entry is complete and is a computed value
QuiescentComplete == (AllDone /\ present) => (Complete(file) /\ file[1][1] \in computed)
\* a computation that raises stores nothing: no block of a failing caller is ever in the file ...
FailStoresNothing == \A c \in Callers : fails[c] => \A i \in 1..Len(file) : file[i][1] # c
\* ... and removes nothing: at quiescence an entry is stored iff some computation completed (now or beforehand)
EntrySurvives == AllDone => (present <=> computed # {})
\* get never computes
GetNeverComputes == \A c \in Callers : op[c] = "get" => ~didCompute[c]
\* the section that computes and stores is mutually exclusive
Locked == {"chk", "br", "opnr", "rd", "rel1", "comp", "opnw", "wra", "wrb", "cls", "rel2", "relf"}
MutualExclusion == \A a, b \in Callers : (a # b /\ pc[a] \in Locked) => pc[b] \notin Locked
\* a non-forced call that began when a complete entry was stored and was not disturbed by another writer does not
\* recompute (DESIGN.md section 8: the reading of "a call that starts after another call has returned")
NoNeedlessRecompute == \A c \in Callers : (didCompute[c] /\ op[c] = "goc") => (~completeAtStart[c] \/ disturbed[c])
\* get returns the stored value when a complete entry was there throughout
GetFindsStable == \A c \in Callers : (op[c] = "get" /\ ret[c] = NoVal) => (~completeAtStart[c] \/ disturbed[c])
\* every caller terminates (no deadlock on the lock)
Terminates == <>AllDone
=============================================================================
