----------------------------- MODULE NameRes -----------------------------
(***************************************************************************)
(* Task names and their resolution: operators shared by Names (C10) and    *)
(* Resolve (C08, C09).                                                     *)
(*                                                                         *)
(* A full name is  ns1::ns2::g1:g2:name .  P-level: names are TOKENISED    *)
(* records [ns, grp, name]; a query is a name form.  I-level: the code's   *)
(* _find_task_full_name, transcribed on CHARACTER sequences so that        *)
(* split('::'), split(':') and str.endswith are the code's.                *)
(***************************************************************************)
EXTENDS Naturals, Sequences, FiniteSets, SequencesExt

(*************************** P-level (tokens) ******************************)
\* the query forms of a full name: full, without namespace, without group, without both
Forms(t) == {[ns |-> n, grp |-> g, name |-> t.name] : n \in {t.ns, <<>>}, g \in {t.grp, <<>>}}

\* q identifies t if it is one of t's forms
PMatch(q, t) == q \in Forms(t)

\* the flattened token list; a namespace token is tagged so that  n::a  and  n:a  differ
Toks(t) == [i \in 1..Len(t.ns) |-> <<"ns", t.ns[i]>>] \o [i \in 1..Len(t.grp) |-> <<"g", t.grp[i]>>] \o <<<<"t", t.name>>>>

\* c is a less-nested form of t: t is c with more namespaces / groups in front
LessNested(c, t) == IsSuffix(Toks(c), Toks(t))

NotFound  == [err |-> "notfound"]
Ambiguous == [err |-> "ambiguous"]
\* "Every task can be addressed by its full name": an exact full name always resolves to that task.
PFind(q, names) ==
  LET M == {t \in names : PMatch(q, t)} IN
  IF q \in names THEN q
  ELSE IF M = {} THEN NotFound
  ELSE IF Cardinality(M) = 1 THEN CHOOSE t \in M : TRUE
  ELSE IF \E c \in M : \A t \in M : LessNested(c, t) THEN CHOOSE c \in M : \A t \in M : LessNested(c, t)
  ELSE Ambiguous

(*************************** I-level (characters) **************************)
\* characters of a token: tokens are spelled with single-character strings in CharsOf
CharsOf(tok) ==
  CASE tok = "a" -> <<"a">> [] tok = "xa" -> <<"x", "a">> [] tok = "n" -> <<"n">> [] tok = "xn" -> <<"x", "n">>
    [] tok = "g" -> <<"g">> [] tok = "xg" -> <<"x", "g">> [] tok = "h" -> <<"h">> [] tok = "train" -> <<"t", "r">>
    [] tok = "train_x" -> <<"t", "r", "_", "x">> [] tok = "b" -> <<"b">>
    [] OTHER -> <<tok>>

RECURSIVE JoinToks(_, _)
JoinToks(toks, sep) == IF toks = <<>> THEN <<>>
                       ELSE IF Len(toks) = 1 THEN CharsOf(toks[1])
                       ELSE CharsOf(toks[1]) \o sep \o JoinToks(Tail(toks), sep)

\* the text of a name as the code sees it
Text(t) == LET g == JoinToks(Append(t.grp, t.name), <<":">>) IN
           IF t.ns = <<>> THEN g ELSE JoinToks(t.ns, <<":", ":">>) \o <<":", ":">> \o g

\* str.split('::'): leftmost non-overlapping separators
RECURSIVE SplitNs(_, _)
SplitNs(txt, cur) ==
  IF txt = <<>> THEN <<cur>>
  ELSE IF Len(txt) >= 2 /\ txt[1] = ":" /\ txt[2] = ":" THEN <<cur>> \o SplitNs(SubSeq(txt, 3, Len(txt)), <<>>)
  ELSE SplitNs(Tail(txt), Append(cur, txt[1]))
RECURSIVE SplitGrp(_, _)
SplitGrp(txt, cur) ==
  IF txt = <<>> THEN <<cur>>
  ELSE IF txt[1] = ":" THEN <<cur>> \o SplitGrp(Tail(txt), <<>>)
  ELSE SplitGrp(Tail(txt), Append(cur, txt[1]))
RECURSIVE JoinNs(_)
JoinNs(parts) == IF parts = <<>> THEN <<>> ELSE IF Len(parts) = 1 THEN parts[1]
                 ELSE parts[1] \o <<":", ":">> \o JoinNs(Tail(parts))
HasColon(txt) == \E i \in 1..Len(txt) : txt[i] = ":"

\* _task_name_match(name, fullname) with determine_namespace
IMatch(name, fullname, determineNs) ==
  LET np == SplitNs(name, <<>>)
      fp == SplitNs(fullname, <<>>)
      namespace == JoinNs(SubSeq(np, 1, Len(np) - 1))
      fullnamespace == JoinNs(SubSeq(fp, 1, Len(fp) - 1))
      n == np[Len(np)]
      f == fp[Len(fp)]
  IN IF (namespace # <<>> \/ ~determineNs) /\ fullnamespace # namespace THEN FALSE
     ELSE IF f = n THEN TRUE
     ELSE IF HasColon(f) /\ ~HasColon(n) THEN LET gp == SplitGrp(f, <<>>) IN gp[Len(gp)] = n
     ELSE FALSE

\* the priority rule: "if any task name is suffix of all others, it has priority".
\* Transcribed as repaired by the fix: commit (a match at a token boundary):  t == cand or t.endswith(':' + cand).
\* IEndsWithTextual is the rule of the pinned 1.4.0 code (plain str.endswith), kept to exhibit the defect.
IEndsWithTextual(t, cand) == IsSuffix(cand, t)
IEndsWith(t, cand) == t = cand \/ IsSuffix(<<":">> \o cand, t)

\* on TEXTS (what the code has): _find_task_full_name(qtxt, txts, determine_namespace = det)
IFindTxt(EW(_, _), exactFirst, det, qtxt, txts) ==
  LET M == {t \in txts : IMatch(qtxt, t, det)} IN
  IF M = {} THEN NotFound
  ELSE IF exactFirst /\ qtxt \in M THEN [txt |-> qtxt]
  ELSE IF Cardinality(M) = 1 THEN [txt |-> CHOOSE t \in M : TRUE]
  ELSE IF \E c \in M : \A t \in M : EW(t, c) THEN [txt |-> CHOOSE c \in M : \A t \in M : EW(t, c)]
  ELSE Ambiguous
IFindWith(EW(_, _), exactFirst, q, names) ==
  LET r == IFindTxt(EW, exactFirst, TRUE, Text(q), {Text(t) : t \in names}) IN
  IF "err" \in DOMAIN r THEN r ELSE CHOOSE t \in names : Text(t) = r.txt
\* as repaired (exact full name first, then token-boundary suffix priority) / as in the pinned 1.4.0 code
IFind(q, names)        == IFindWith(IEndsWith, TRUE, q, names)
IFindTextual(q, names) == IFindWith(IEndsWithTextual, FALSE, q, names)

=============================================================================
