---------------------------- MODULE KeyScheme ----------------------------
(***************************************************************************)
(* The storage scheme of release 1.4.0, transcribed (C12), and what it     *)
(* must depend on (C02) and distinguish (C03).                             *)
(*                                                                         *)
(*   key text  =  <parameter reprs joined by ###> $$$ <input reprs by ###> *)
(*   key       =  H(key text)            (H = sha256(.)[:32], uninterpreted*)
(*                                        here; the binding computes it)   *)
(*   location  =  <group levels>/<task name>/<key>.<ext of the data class> *)
(*                                                                         *)
(* Values are tagged records; texts are native TLC strings built with \o.  *)
(* This module is the FROZEN reference of the scheme: it is transcribed    *)
(* from the pinned 1.4.0 code and never regenerated from /repo.            *)
(***************************************************************************)
EXTENDS Naturals, Integers, Sequences, FiniteSets, TLC, Json, SequencesExt

CONSTANTS Vals,        \* the universe of parameter values: a sequence of tagged records
          NSmall,      \* the first NSmall values are also combined with every (y, z) variation
          QuoteKeys,   \* the mapping keys that contain a quote character
          Emit

(*************************** values ****************************************)
\* atoms are records: [t |-> "lit", v |-> "None"|"True"|"False"], [t |-> "int", v |-> i],
\*                    [t |-> "flt", v |-> "1.0"] (the text Python's repr gives),
\*                    [t |-> "str", v |-> s, q |-> s contains a quote character],
\*                    [t |-> "rstr", v |-> s] (a string that contained a placeholder: repr keeps the placeholder form)
\* containers: [t |-> "list", v |-> <<values>>], [t |-> "dict", v |-> <<<<key, value>>, ...>>] with the pairs in
\* Python's key order.  The universe of values is supplied by the harness as the SEQUENCE Vals (TLC builds large
\* sets of nested records very slowly; a sequence is indexed, never normalised).  Its grammar - atoms, lists and
\* string-keyed mappings of length <= 2, nested to depth 2 - is documented in harness/tcverif/key_check.py.

(*************************** repr_from_instantiation ***********************)
RECURSIVE JoinS(_, _)
JoinS(parts, sep) == IF parts = <<>> THEN "" ELSE IF Len(parts) = 1 THEN parts[1] ELSE parts[1] \o sep \o JoinS(Tail(parts), sep)

\* strings are wrapped in single quotes WITHOUT escaping (as the 1.4.0 code does)
Quote(s) == "'" \o s \o "'"
\* Python's repr() for the argument values of AutoParameterObject (menus: ints, quote-free strings, lists of them)
RECURSIVE PyRepr(_)
PyRepr(x) ==
  CASE x.t = "lit" -> x.v [] x.t = "int" -> ToString(x.v) [] x.t = "flt" -> x.v [] x.t = "str" -> Quote(x.v)
    [] x.t = "list" -> "[" \o JoinS([i \in 1..Len(x.v) |-> PyRepr(x.v[i])], ", ") \o "]"
    [] x.t = "dict" -> "{" \o JoinS([i \in 1..Len(x.v) |-> Quote(x.v[i][1]) \o ": " \o PyRepr(x.v[i][2])], ", ") \o "}"

RECURSIVE ValueRepr(_)
ValueRepr(x) ==
  CASE x.t = "lit"  -> x.v
    [] x.t = "int"  -> ToString(x.v)
    [] x.t = "flt"  -> x.v
    [] x.t = "str"  -> Quote(x.v)
    [] x.t = "rstr" -> Quote(x.v)        \* repr() of the placeholder form; menus contain no quote/backslash here
    [] x.t = "list" -> "[" \o JoinS([i \in 1..Len(x.v) |-> ValueRepr(x.v[i])], ", ") \o "]"
    [] x.t = "dict" -> "{" \o JoinS([i \in 1..Len(x.v) |-> Quote(x.v[i][1]) \o ": " \o ValueRepr(x.v[i][2])], ", ") \o "}"
    [] x.t = "auto" -> x.cls \o "(" \o JoinS([i \in 1..Len(x.args) |-> x.args[i][1] \o "=" \o PyRepr(x.args[i][2])], ", ") \o ")"
    [] x.t = "inst" -> x.cls \o "(" \o JoinS([i \in 1..Len(x.args) |-> ValueRepr(x.args[i])], ", ")
                        \o (IF x.args # <<>> /\ x.kwargs # <<>> THEN ", " ELSE "")
                        \o JoinS([i \in 1..Len(x.kwargs) |-> x.kwargs[i][1] \o "=" \o ValueRepr(x.kwargs[i][2])], ", ") \o ")"

(*************************** parameters ************************************)
\* a parameter: [name, value, default (<<>> or <<v>>), ignore, dpd]
ParamRepr(p) ==
  IF p.ignore THEN <<>>
  ELSE IF p.dpd /\ p.default # <<>> /\ p.value = p.default[1] THEN <<>>
  ELSE <<p.name \o "=" \o ValueRepr(p.value)>>
\* the registry: parameters in NAME order (the menus list them in name order), joined by ###; no persisted
\* parameter at all gives Python's None, which the f-string renders as "None"
RECURSIVE ReprList(_)
ReprList(ps) == IF ps = <<>> THEN <<>> ELSE ParamRepr(ps[1]) \o ReprList(Tail(ps))
RegistryRepr(ps) == LET rs == ReprList(ps) IN IF rs = <<>> THEN "None" ELSE JoinS(rs, "###")

(*************************** the pipeline of this module *******************)
\*   a (no group, JSON)   <-   g:b (group g, numpy)   <-   h:g:c (groups h:g, pandas; inputs a and g:b)
\*   d (directory data) on a;  a2 (no parameters);  e on a and a2 (names that are prefixes of one another);
\*   f (parameters, but none persisted when z is at its default);  m (in-memory) on a;  n on m;
\*   h (a string parameter declared with dtype=str whose value holds a placeholder).
\*   Inputs enter the key as  <name relative to own namespace>=<key of input>, sorted by the input's full name
\*   (BEFORE formatting), joined by ###.
VARIABLES va,     \* value of a's parameter x
          yv, zv  \* b's parameters: y (default 5, always persisted), z (default 1, not persisted when default)
vars == <<va, yv, zv>>

Int_(i) == [t |-> "int", v |-> i]
ParamsOf(task) ==
  CASE task = "a" -> <<[name |-> "x", value |-> va, default |-> <<>>, ignore |-> FALSE, dpd |-> FALSE]>>
    [] task = "b" -> <<[name |-> "v", value |-> Int_(7), default |-> <<Int_(0)>>, ignore |-> TRUE, dpd |-> FALSE],
                       [name |-> "y", value |-> Int_(yv), default |-> <<Int_(5)>>, ignore |-> FALSE, dpd |-> FALSE],
                       [name |-> "z", value |-> Int_(zv), default |-> <<Int_(1)>>, ignore |-> FALSE, dpd |-> TRUE]>>
    [] task = "f" -> <<[name |-> "v", value |-> Int_(7), default |-> <<Int_(0)>>, ignore |-> TRUE, dpd |-> FALSE],
                       [name |-> "z", value |-> Int_(zv), default |-> <<Int_(1)>>, ignore |-> FALSE, dpd |-> TRUE]>>
    \* (pth is declared dtype=Path, s dtype=str: the key text keeps the placeholder form whatever the value is converted to)
    [] task = "h" -> <<[name |-> "pth", value |-> [t |-> "rstr", v |-> "{A}/p"], default |-> <<>>, ignore |-> FALSE, dpd |-> FALSE],
                       [name |-> "s", value |-> [t |-> "rstr", v |-> "{A}/s"], default |-> <<>>, ignore |-> FALSE, dpd |-> FALSE]>>
    [] OTHER -> <<>>
\* inputs in the order of their full names
InputsOf(task) == CASE task = "b" -> <<<<"a", "a">>>> [] task = "c" -> <<<<"a", "a">>, <<"g:b", "b">>>>
                    [] task = "d" -> <<<<"a", "a">>>> [] task = "e" -> <<<<"a", "a">>, <<"a2", "a2">>>>
                    [] task = "m" -> <<<<"a", "a">>>> [] task = "n" -> <<<<"m", "m">>>> [] OTHER -> <<>>
GroupOf(task) == CASE task = "b" -> <<"g">> [] task = "c" -> <<"h", "g">> [] OTHER -> <<>>
ExtOf(task)   == CASE task = "b" -> ".npy" [] task = "c" -> ".pd" [] task = "d" -> "" [] task = "m" -> "none" [] OTHER -> ".json"
Tasks == {"a", "a2", "b", "c", "d", "e", "f", "h", "m", "n"}

\* the key as a tree (H is applied by the binding): [params |-> text, inputs |-> <<[name, key tree of the input]>>]
RECURSIVE KeyTree(_)
KeyTree(task) == [params |-> RegistryRepr(ParamsOf(task)),
                  inputs |-> [i \in 1..Len(InputsOf(task)) |-> [name |-> InputsOf(task)[i][1],
                                                                key |-> KeyTree(InputsOf(task)[i][2])]]]
\* the same with a symbolic injective H, for the invariants below
RECURSIVE KeyText(_)
H(s) == "H(" \o s \o ")"
KeyText(task) == RegistryRepr(ParamsOf(task)) \o "$$$" \o
                 JoinS([i \in 1..Len(InputsOf(task)) |-> InputsOf(task)[i][1] \o "=" \o H(KeyText(InputsOf(task)[i][2]))], "###")

\* inputs from OTHER namespaces keep the namespace part that lies below the task's own namespace:
\*   o (outer config) reads  xn::a  of a pipeline mounted as xn;  cmp reads  p1::a  and  p2::a  of two mounts
ATree(v) == [params |-> "x=" \o ValueRepr(v), inputs |-> <<>>]
OTree == [params |-> "None", inputs |-> <<[name |-> "xn::a", key |-> KeyTree("a")]>>]
CmpTree(v1, v2) == [params |-> "None", inputs |-> <<[name |-> "p1::a", key |-> ATree(v1)], [name |-> "p2::a", key |-> ATree(v2)]>>]
\* C03: swapping which mount carries which upstream computation is a different computation of cmp
SwapDiffers == va # Int_(1) => CmpTree(va, Int_(1)) # CmpTree(Int_(1), va)

\* location relative to the data directory: group levels / task name / key . ext ; side files beside it
RelDir(task) == GroupOf(task) \o <<task>>

\* (Vals is bound once by the quantifier: TLC re-evaluates an overridden constant on every reference)
Init == \E V \in {Vals} :
        \/ \E i \in 1..Len(V) : va = V[i] /\ yv = 5 /\ zv = 1
        \/ \E i \in 1..NSmall : va = V[i] /\ yv \in {5, 6} /\ zv \in {1, 2}
Next == UNCHANGED vars

(*************************** properties ************************************)
\* C02: parameters excluded from persistence never reach the key text
IgnoredAbsent == \A i \in 1..Len(ParamsOf("b")) : ParamsOf("b")[i].ignore => ParamRepr(ParamsOf("b")[i]) = <<>>
DefaultAbsent == zv = 1 => ~\E i \in 1..Len(ReprList(ParamsOf("b"))) : ReprList(ParamsOf("b"))[i] = "z=1"
\* C03 chain hash: the key text of every downstream task contains the (hashed) key text of a
ChainHash == /\ KeyText("b") = RegistryRepr(ParamsOf("b")) \o "$$$a=" \o H(KeyText("a"))
             /\ KeyText("c") = "None$$$a=" \o H(KeyText("a")) \o "###g:b=" \o H(KeyText("b"))
             /\ KeyText("n") = "None$$$m=" \o H("None$$$a=" \o H(KeyText("a")))     \* through an in-memory task
             /\ KeyText("e") = "None$$$a=" \o H(KeyText("a")) \o "###a2=" \o H("None$$$")
\* no persisted parameter at all is Python's None in the key text, not the empty string
NoParamsIsNone == (zv = 1 => RegistryRepr(ParamsOf("f")) = "None") /\ RegistryRepr(ParamsOf("a2")) = "None"

EmitCase == Emit => PrintT("@@" \o ToJson([tag |-> "K", va |-> va, yv |-> yv, zv |-> zv, repr |-> ValueRepr(va),
                            keys |-> [t \in Tasks |-> KeyTree(t)],
                            dirs |-> [t \in Tasks |-> RelDir(t)], exts |-> [t \in Tasks |-> ExtOf(t)],
                            xns |-> [o |-> OTree, cmp12 |-> CmpTree(va, Int_(1)), cmp21 |-> CmpTree(Int_(1), va)]]))

=============================================================================
