------------------------------ MODULE CacheSeq ------------------------------
(***************************************************************************)
(* File caches, sequentially, with damage to the files between calls (C14):*)
(* the dictionary a FileCache must behave like.                            *)
(*                                                                         *)
(* A slot is one key of one (sub-)cache.  Its file is absent, holds the    *)
(* value of a computation, is damaged (empty / truncated / corrupt: what   *)
(* an interrupted write leaves), or holds an entry recorded for ANOTHER    *)
(* key (JSON caches record the key beside the value).                      *)
(* Values are numbered by the computation that produced them.              *)
(***************************************************************************)
EXTENDS Naturals, Sequences, TLC, Json

CONSTANTS Slots,      \* e.g. {"k1", "k2", "s/k1"}: keys of the cache and of a sub-cache
          HasKeyCheck,\* TRUE for JSON caches (entry records its key)
          MaxSteps, Emit

VARIABLES store,   \* store[s]: <<>> absent | <<v>> value of computation v | <<0>> damaged | <<99>> foreign entry
          nv,      \* number of computations so far (the next one produces value nv + 1)
          last,    \* [op, s, res, computed]   res: 0 = NO_VALUE, v, 97 = computer's exception, 98 = CacheException
          steps
vars == <<store, nv, last, steps>>

Damaged == <<0>>
Foreign == <<99>>
NoValue == 0
Raised  == 97
CacheExc == 98
Good(x) == x # <<>> /\ x # Damaged /\ x # Foreign

Init == store = [s \in Slots |-> <<>>] /\ nv = 0 /\ steps = 0
        /\ last = [op |-> "init", s |-> "", res |-> 0, computed |-> FALSE, force |-> FALSE]
Tick == steps < MaxSteps /\ steps' = steps + 1

\* get(key): the stored value, or NO_VALUE; never computes; a foreign entry is reported
Get(s) == /\ Tick
          /\ last' = [op |-> "get", s |-> s, computed |-> FALSE, force |-> FALSE,
                      res |-> IF Good(store[s]) THEN store[s][1] ELSE IF store[s] = Foreign THEN CacheExc ELSE NoValue]
          /\ UNCHANGED <<store, nv>>
\* get_or_compute(key, f, force): the stored value when one is stored intact and not forced; otherwise f is
\* called once and its result stored and returned; a missing / damaged file is recomputed, never returned
Goc(s, force, raises) ==
  /\ Tick
  /\ IF Good(store[s]) /\ ~force
     THEN last' = [op |-> "goc", s |-> s, res |-> store[s][1], computed |-> FALSE, force |-> force] /\ UNCHANGED <<store, nv>>
     ELSE IF store[s] = Foreign /\ ~force
     THEN last' = [op |-> "goc", s |-> s, res |-> CacheExc, computed |-> FALSE, force |-> force] /\ UNCHANGED <<store, nv>>
     ELSE IF raises
     THEN last' = [op |-> "goc-raise", s |-> s, res |-> Raised, computed |-> TRUE, force |-> force] /\ UNCHANGED <<store, nv>>
     ELSE /\ nv' = nv + 1
          /\ store' = [store EXCEPT ![s] = <<nv + 1>>]
          /\ last' = [op |-> IF force THEN "force" ELSE "goc", s |-> s, res |-> nv + 1, computed |-> TRUE, force |-> force]
\* damage between calls: what an interrupted write or a foreign tool leaves
Truncate(s) == Tick /\ Good(store[s]) /\ store' = [store EXCEPT ![s] = Damaged]
               /\ last' = [op |-> "truncate", s |-> s, res |-> 0, computed |-> FALSE, force |-> FALSE] /\ UNCHANGED nv
Delete(s)   == Tick /\ store[s] # <<>> /\ store' = [store EXCEPT ![s] = <<>>]
               /\ last' = [op |-> "delete", s |-> s, res |-> 0, computed |-> FALSE, force |-> FALSE] /\ UNCHANGED nv
PlantForeign(s) == HasKeyCheck /\ Tick /\ store' = [store EXCEPT ![s] = Foreign]
               /\ last' = [op |-> "foreign", s |-> s, res |-> 0, computed |-> FALSE, force |-> FALSE] /\ UNCHANGED nv

Next == \E s \in Slots : \/ Get(s) \/ Goc(s, FALSE, FALSE) \/ Goc(s, TRUE, FALSE) \/ Goc(s, FALSE, TRUE)
                         \/ Goc(s, TRUE, TRUE) \/ Truncate(s) \/ Delete(s) \/ PlantForeign(s)
Spec == Init /\ [][Next]_vars

(*************************** C14 *******************************************)
TypeOK == \A s \in Slots : store[s] = <<>> \/ store[s][1] \in 0..99
\* a damaged or foreign file is never returned as a value
NeverReturnsDamage == last.res \notin {0, 97, 98} => last.res \in 1..nv
\* get never computes; a computation that raises stores nothing
GetNeverComputes == [][last'.op = "get" => (~last'.computed /\ store' = store)]_vars
RaiseStoresNothing == [][last'.res = Raised => store' = store]_vars
\* only the addressed slot ever changes: keys and sub-caches never share entries
SlotsIndependent == [][\A s \in Slots : s # last'.s => store'[s] = store[s]]_vars
\* force always recomputes and replaces
ForceReplaces == [][last'.op = "force" => (last'.computed /\ store'[last'.s] = <<last'.res>> /\ last'.res = nv + 1)]_vars
\* an intact entry is returned without computing
IntactIsServed == [][(last'.op = "goc" /\ Good(store[last'.s])) => (~last'.computed /\ last'.res = store[last'.s][1])]_vars

Proj(st, n, la, k) == [store |-> [s \in Slots |-> IF st[s] = <<>> THEN 100 ELSE st[s][1]], nv |-> n, last |-> la, steps |-> k]
InitGen == Init /\ PrintT("@@" \o ToJson([tag |-> "I", st |-> Proj(store, nv, last, steps)]))
NextGen == Next /\ PrintT("@@" \o ToJson([tag |-> "E", from |-> Proj(store, nv, last, steps), act |-> last',
                                          to |-> Proj(store', nv', last', steps')]))
=============================================================================
