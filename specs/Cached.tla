------------------------------- MODULE Cached -------------------------------
(***************************************************************************)
(* The `cached` method decorator (C16).                                    *)
(*                                                                         *)
(* Part A - binding.  A call SPELLING is how the arguments are written:    *)
(* some positionally, some by keyword, defaulted ones possibly omitted.    *)
(* Bind is Python's binding of a spelling to parameters; IBind is the      *)
(* decorator's own loop over the signature (cache.py), transcribed.  The   *)
(* cache key is the JSON of IBind minus ignored names, sorted by name.     *)
(* TLC enumerates every spelling of every binding of every signature of    *)
(* the menu and checks IBind = Bind, so equal bindings get one key.        *)
(*                                                                         *)
(* Part B - call sequences over the resulting dictionary with the control  *)
(* keywords force_cache, only_cache, store_cache_value, two methods and    *)
(* versions sharing one object cache.                                      *)
(***************************************************************************)
EXTENDS Naturals, Sequences, FiniteSets, TLC, Json

CONSTANTS Sigs,      \* menu of signatures: sequences of [name, hasdef, def, kwonly]  (self excluded)
          Vals,      \* argument values
          Ignored,   \* names in ignore_kwargs
          Methods,   \* part B: entries of the object cache: <<method name, version>>
          Bindings,  \* part B: the bindings used (abstract ids)
          MaxSteps, Emit, Part

(******************************* Part A ************************************)
VARIABLES sig, binding, npos, omit     \* a signature, values for all parameters, how many positional, which omitted
varsA == <<sig, binding, npos, omit>>

Names(s) == {s[i].name : i \in 1..Len(s)}
Idx(s, n) == CHOOSE i \in 1..Len(s) : s[i].name = n
NPosMax(s) == Cardinality({i \in 1..Len(s) : ~s[i].kwonly})

\* the spelling: positional prefix of length npos; parameters in `omit` are left out (allowed only when they have a
\* default and the bound value IS the default); the rest by keyword
Positional == [i \in 1..npos |-> binding[sig[i].name]]
Keywords   == [n \in {sig[i].name : i \in (npos + 1)..Len(sig)} \ omit |-> binding[n]]
LegitSpelling == /\ npos <= NPosMax(sig)
                 /\ \A n \in omit : /\ Idx(sig, n) > npos /\ sig[Idx(sig, n)].hasdef
                                    /\ binding[n] = sig[Idx(sig, n)].def

\* Python: positional arguments fill the parameters left to right, keywords by name, defaults for the rest
Bind == [n \in Names(sig) |->
           IF Idx(sig, n) <= npos THEN Positional[Idx(sig, n)]
           ELSE IF n \in DOMAIN Keywords THEN Keywords[n] ELSE sig[Idx(sig, n)].def]

\* cache.py: for i, (arg, parameter) in enumerate(signature): if i-1 < len(args): kwargs[arg] = args[i-1];
\*           if parameter.default != empty and arg not in kwargs: kwargs[arg] = parameter.default
RECURSIVE ILoop(_, _)
ILoop(i, kw) ==
  IF i > Len(sig) THEN kw
  ELSE LET n == sig[i].name
           k1 == IF i <= Len(Positional) THEN [m \in DOMAIN kw \cup {n} |-> IF m = n THEN Positional[i] ELSE kw[m]] ELSE kw
           k2 == IF sig[i].hasdef /\ n \notin DOMAIN k1 THEN [m \in DOMAIN k1 \cup {n} |-> IF m = n THEN sig[i].def ELSE k1[m]]
                 ELSE k1
       IN ILoop(i + 1, k2)
IBind == ILoop(1, Keywords)
KeyOf(b) == [n \in DOMAIN b \ Ignored |-> b[n]]

InitA == /\ sig \in Sigs
         /\ binding \in [Names(sig) -> Vals]
         /\ npos \in 0..NPosMax(sig)
         /\ omit \in SUBSET Names(sig)
         /\ LegitSpelling
NextA == UNCHANGED varsA

\* C16: the decorator binds as Python does, so every spelling of one binding has one key
BindConforms == IBind = Bind
KeyIsBinding == KeyOf(IBind) = [n \in Names(sig) \ Ignored |-> binding[n]]
EmitA == Emit => PrintT("@@" \o ToJson([tag |-> "A", sig |-> sig, binding |-> binding, npos |-> npos, omit |-> omit,
                                        key |-> KeyOf(Bind)]))

(******************************* Part B ************************************)
VARIABLES cache,   \* cache[<<m, b>>]: <<>> or <<v>>   (v: number of the invocation / 50 + supplied value)
          ninv,    \* invocations of the methods so far
          lastc,   \* [m, b, ctrl, res, invoked]   res: 0 = NO_VALUE
          stepsB
varsB == <<cache, ninv, lastc, stepsB>>
Entries == {<<m, b>> : m \in Methods, b \in Bindings}

InitB == cache = [e \in Entries |-> <<>>] /\ ninv = 0 /\ stepsB = 0
         /\ lastc = [m |-> <<"", "">>, b |-> 0, ctrl |-> "init", res |-> 0, invoked |-> FALSE]
TickB == stepsB < MaxSteps /\ stepsB' = stepsB + 1
Call(m, b, ctrl) ==
  /\ TickB
  /\ LET e == <<m, b>> IN
     CASE ctrl = "only" ->
            /\ lastc' = [m |-> m, b |-> b, ctrl |-> ctrl, invoked |-> FALSE, res |-> IF cache[e] = <<>> THEN 0 ELSE cache[e][1]]
            /\ UNCHANGED <<cache, ninv>>
       [] ctrl \in {"plain", "store"} /\ cache[e] # <<>> ->
            /\ lastc' = [m |-> m, b |-> b, ctrl |-> ctrl, invoked |-> FALSE, res |-> cache[e][1]]
            /\ UNCHANGED <<cache, ninv>>
       [] ctrl \in {"store", "forcestore"} /\ (cache[e] = <<>> \/ ctrl = "forcestore") ->
            /\ cache' = [cache EXCEPT ![e] = <<50 + stepsB>>]           \* the supplied value, no invocation
            /\ lastc' = [m |-> m, b |-> b, ctrl |-> ctrl, invoked |-> FALSE, res |-> 50 + stepsB]
            /\ UNCHANGED ninv
       [] OTHER ->                                                      \* plain miss, or force_cache
            /\ ninv' = ninv + 1
            /\ cache' = [cache EXCEPT ![e] = <<ninv + 1>>]
            /\ lastc' = [m |-> m, b |-> b, ctrl |-> ctrl, invoked |-> TRUE, res |-> ninv + 1]
NextB == \E m \in Methods, b \in Bindings, ctrl \in {"plain", "force", "only", "store", "forcestore"} : Call(m, b, ctrl)

\* C16 on sequences
OnlyNeverInvokes == [][lastc'.ctrl = "only" => (~lastc'.invoked /\ cache' = cache)]_varsB
ForceInvokes     == [][lastc'.ctrl = "force" => (lastc'.invoked /\ cache'[<<lastc'.m, lastc'.b>>] = <<lastc'.res>>)]_varsB
HitNeverInvokes  == [][(lastc'.ctrl = "plain" /\ cache[<<lastc'.m, lastc'.b>>] # <<>>) =>
                          (~lastc'.invoked /\ lastc'.res = cache[<<lastc'.m, lastc'.b>>][1])]_varsB
StoreNeverInvokes == [][lastc'.ctrl \in {"store", "forcestore"} => ~lastc'.invoked]_varsB
EntriesIndependent == [][\A e \in Entries : e # <<lastc'.m, lastc'.b>> => cache'[e] = cache[e]]_varsB

ProjB(c, n, l, k) == [cache |-> [e \in Entries |-> IF c[e] = <<>> THEN 0 ELSE c[e][1]], ninv |-> n, last |-> l, steps |-> k]
InitGenB == InitB /\ PrintT("@@" \o ToJson([tag |-> "I", st |-> [ninv |-> 0, steps |-> 0, nent |-> 0]]))
NextGenB == NextB /\ PrintT("@@" \o ToJson([tag |-> "E",
                 from |-> [ninv |-> ninv, steps |-> stepsB, ent |-> {e \in Entries : cache[e] # <<>>}, vals |-> {<<e, cache[e]>> : e \in {x \in Entries : cache[x] # <<>>}}],
                 act |-> lastc',
                 to |-> [ninv |-> ninv', steps |-> stepsB', ent |-> {e \in Entries : cache'[e] # <<>>}, vals |-> {<<e, cache'[e]>> : e \in {x \in Entries : cache'[x] # <<>>}}]]))

Init == IF Part = "A" THEN InitA /\ cache = <<>> /\ ninv = 0 /\ lastc = <<>> /\ stepsB = 0
        ELSE InitB /\ sig = <<>> /\ binding = <<>> /\ npos = 0 /\ omit = {}
Next == IF Part = "A" THEN NextA /\ UNCHANGED varsB ELSE NextB /\ UNCHANGED varsA
InitGen == InitGenB /\ sig = <<>> /\ binding = <<>> /\ npos = 0 /\ omit = {}
NextGen == NextGenB /\ UNCHANGED varsA
=============================================================================
