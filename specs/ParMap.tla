------------------------------- MODULE ParMap -------------------------------
(***************************************************************************)
(* parallel_map and chunked (C17).                                         *)
(*                                                                         *)
(* The input 1..N is cut into consecutive chunks of ChunkSize; the         *)
(* elements of a chunk are submitted to a pool of Threads workers in input *)
(* order; a free worker STARTS the next submitted element; any element in  *)
(* flight may COMPLETE next (this is the scheduling the property           *)
(* quantifies over); completions are gathered in completion order and, if  *)
(* Sort, put back into input order; then the next chunk.  Element RaiseAt  *)
(* (0 = none) raises: the call fails after its chunk has drained.          *)
(***************************************************************************)
EXTENDS Naturals, Sequences, FiniteSets, TLC, Json

CONSTANTS Ns, ThreadSet, ChunkSizes, RaiseSet, Emit    \* the parameter space explored (chosen in Init)

VARIABLES N, Threads, ChunkSize, Sort, RaiseAt      \* the parameters of one call (fixed after Init)
params == <<N, Threads, ChunkSize, Sort, RaiseAt>>

(*************************** chunked ***************************************)
RECURSIVE Chunked(_, _)
Chunked(xs, c) == IF xs = <<>> THEN <<>>
                  ELSE IF Len(xs) <= c THEN <<xs>>
                  ELSE <<SubSeq(xs, 1, c)>> \o Chunked(SubSeq(xs, c + 1, Len(xs)), c)
RECURSIVE Flatten(_)
Flatten(cs) == IF cs = <<>> THEN <<>> ELSE cs[1] \o Flatten(Tail(cs))
Input == [i \in 1..N |-> i]
Chunks == Chunked(Input, ChunkSize)
\* C17: consecutive chunks of exactly the requested size except a shorter, non-empty last one
ChunkLaw == /\ Flatten(Chunks) = Input
            /\ \A c \in 1..Len(Chunks) : Len(Chunks[c]) >= 1 /\ (c < Len(Chunks) => Len(Chunks[c]) = ChunkSize)
                                          /\ Len(Chunks[c]) <= ChunkSize

(*************************** parallel_map **********************************)
VARIABLES k,         \* current chunk
          queue,     \* submitted, not yet started (input order)
          inflight,  \* started, not completed
          done,      \* completed elements of the current chunk, in completion order
          out,       \* gathered results of finished chunks
          calls,     \* calls[i]: how often f was called with element i
          phase,     \* "run" | "ok" | "raised"
          last       \* label of the last step
vars == <<k, queue, inflight, done, out, calls, phase, last, params>>

F(i) == i * 10          \* the mapped function
RECURSIVE SortAsc(_)
Min(S) == CHOOSE x \in S : \A y \in S : x <= y
SortAsc(s) == IF s = <<>> THEN <<>>
              ELSE LET m == Min({s[i] : i \in 1..Len(s)}) IN <<m>> \o SortAsc(SelectSeq(s, LAMBDA x : x # m))

Init == /\ N \in Ns /\ Threads \in ThreadSet /\ ChunkSize \in ChunkSizes /\ Sort \in BOOLEAN
        /\ RaiseAt \in {0} \cup (RaiseSet \cap 1..N)
        /\ k = 1 /\ queue = (IF Len(Chunks) = 0 THEN <<>> ELSE Chunks[1]) /\ inflight = {} /\ done = <<>> /\ out = <<>>
        /\ calls = [i \in 1..N |-> 0] /\ phase = IF Len(Chunks) = 0 THEN "ok" ELSE "run"
        /\ last = [a |-> "init", i |-> 0]
Start == /\ phase = "run" /\ queue # <<>> /\ Cardinality(inflight) < Threads
         /\ inflight' = inflight \cup {Head(queue)} /\ queue' = Tail(queue)
         /\ calls' = [calls EXCEPT ![Head(queue)] = @ + 1]
         /\ last' = [a |-> "start", i |-> Head(queue)]
         /\ UNCHANGED <<k, done, out, phase, params>>
Complete(i) == /\ phase = "run" /\ i \in inflight
               /\ inflight' = inflight \ {i} /\ done' = Append(done, i)
               /\ last' = [a |-> "complete", i |-> i]
               /\ UNCHANGED <<k, queue, out, calls, phase, params>>
\* the chunk has drained: gather, then the next chunk or the end
Gather == /\ phase = "run" /\ queue = <<>> /\ inflight = {}
          /\ last' = [a |-> "gather", i |-> k]
          /\ IF RaiseAt # 0 /\ \E j \in 1..Len(done) : done[j] = RaiseAt
             THEN phase' = "raised" /\ UNCHANGED <<k, queue, done, out>>
             ELSE /\ out' = out \o [j \in 1..Len(done) |-> F((IF Sort THEN SortAsc(done) ELSE done)[j])]
                  /\ IF k < Len(Chunks) THEN k' = k + 1 /\ queue' = Chunks[k + 1] /\ done' = <<>> /\ phase' = "run"
                     ELSE k' = k /\ queue' = <<>> /\ done' = <<>> /\ phase' = "ok"
          /\ UNCHANGED <<inflight, calls, params>>
Next == Start \/ (\E i \in 1..N : Complete(i)) \/ Gather
Spec == Init /\ [][Next]_vars

(*************************** C17 *******************************************)
\* the result equals map in input order, whatever the completion order
EqualsMap == (phase = "ok" /\ Sort) => out = [i \in 1..N |-> F(i)]
\* unsorted: a permutation of the outputs within each chunk
PermutationPerChunk == phase = "ok" =>
   /\ Len(out) = N
   /\ \A c \in 1..Len(Chunks) : LET lo == (c - 1) * ChunkSize IN
        {out[lo + j] : j \in 1..Len(Chunks[c])} = {F(Chunks[c][j]) : j \in 1..Len(Chunks[c])}
\* f is called exactly once per element (of every chunk that was started), never twice
ExactlyOnce == /\ \A i \in 1..N : calls[i] <= 1
               /\ phase = "ok" => \A i \in 1..N : calls[i] = 1
\* an exception of f propagates
RaisePropagates == (RaiseAt \in 1..N /\ phase \in {"ok", "raised"}) => phase = "raised"
\* never more than Threads elements in flight
Bounded == Cardinality(inflight) <= Threads

Par == [n |-> N, threads |-> Threads, chunksize |-> ChunkSize, sort |-> Sort, raiseat |-> RaiseAt]
Proj == [par |-> Par, k |-> k, queue |-> queue, inflight |-> inflight, done |-> done, out |-> out, phase |-> phase]
EmitInit == Init /\ PrintT("@@" \o ToJson([tag |-> "I", st |-> Proj, chunks |-> Chunks]))
EmitNext == Next /\ PrintT("@@" \o ToJson([tag |-> "E", from |-> Proj, act |-> last',
              to |-> [par |-> Par, k |-> k', queue |-> queue', inflight |-> inflight', done |-> done', out |-> out', phase |-> phase']]))
=============================================================================
