----------------------------- MODULE KeyPairs -----------------------------
(***************************************************************************)
(* C03 on the value representation: two DIFFERENT values never share a     *)
(* representation.  TLC explores all pairs <<va, vb>> of the first NPair   *)
(* values.    InjectiveQuoteFree must hold; Injective (all values) is      *)
(* violated by the pinned scheme - strings are quoted without escaping -   *)
(* and TLC exhibits the witness (known finding, see DESIGN.md section 7).  *)
(***************************************************************************)
EXTENDS KeyScheme
VARIABLE vb
CONSTANT NPair    \* pairs are drawn from the first NPair values
Init2 == \E V \in {Vals} : \E i, j \in 1..NPair : va = V[i] /\ vb = V[j] /\ yv = 5 /\ zv = 1
Next2 == UNCHANGED <<va, yv, zv, vb>>
RECURSIVE HasQuote(_)
HasQuote(x) == CASE x.t = "str" -> x.q
                 [] x.t = "list" -> \E i \in 1..Len(x.v) : HasQuote(x.v[i])
                 [] x.t = "dict" -> \E i \in 1..Len(x.v) : x.v[i][1] \in QuoteKeys \/ HasQuote(x.v[i][2])
                 [] OTHER -> FALSE
Injective == va # vb => ValueRepr(va) # ValueRepr(vb)
InjectiveQuoteFree == (va # vb /\ ~HasQuote(va) /\ ~HasQuote(vb)) => ValueRepr(va) # ValueRepr(vb)
=============================================================================
