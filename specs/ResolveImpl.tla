---------------------------- MODULE ResolveImpl ----------------------------
(***************************************************************************)
(* Implementation level of chain construction (C08, C09): the ALGORITHM of *)
(* Chain._prepare in chain.py, transcribed stage by stage over the same    *)
(* config forests as Resolve.tla, on the data the code works on - ordered  *)
(* dictionaries and full-name TEXTS (str.startswith, split('::'), the      *)
(* character-level _find_task_full_name of NameRes):                       *)
(*                                                                         *)
(*   _process_config       depth-first walk over `uses`, a config already  *)
(*                         registered under the same namespace is skipped  *)
(*   _create_tasks         per config in that order: excluded first, then  *)
(*                         every non-abstract task is instantiated with    *)
(*                         the config (parameters are checked here) and    *)
(*                         registered under its full name; a name already  *)
(*                         registered by ANOTHER config is a conflict      *)
(*   _process_dependencies per registered name: namespace = text before    *)
(*                         the last '::'; ~patterns expand to registered   *)
(*                         names of that namespace; a reference that does  *)
(*                         not start with  namespace + '::'  is prefixed;  *)
(*                         lookup with determine_namespace=False; missing  *)
(*                         optional inputs take their default              *)
(*   second pass           tasks are re-created input-first (a cycle is an *)
(*                         unbounded recursion) and wired again            *)
(*   _build_graph          acyclicity                                      *)
(*                                                                         *)
(* ImplConforms: on every forest the algorithm fails exactly when the      *)
(* property-level resolution (Resolve.tla) is an error, and otherwise      *)
(* yields the same tasks, parameter values and wiring.  PrefixSep = FALSE  *)
(* gives the prefix test of the pinned 1.4.0 code (no '::' - defect D3):   *)
(* TLC then finds the `train` / `train_x` counterexample.                  *)
(***************************************************************************)
EXTENDS Resolve

CONSTANTS PrefixSep,      \* TRUE: startswith(namespace + '::') (repaired), FALSE: startswith(namespace) (1.4.0: D3)
          ClassRefExact   \* TRUE: a by-class reference that only finds a grouped namesake is 'not found' (repaired: D21)

ClassOrder == <<"a", "b", "c", "d", "trainx", "ge", "f", "pat", "cy1", "cy2", "z", "w", "bsub", "both", "both2", "gb", "mi", "selfpat", "ol">>
Sep == <<":", ":">>

(*************************** _process_config *******************************)
RECURSIVE IProc(_, _, _, _), IUses(_, _, _, _, _)
IProc(f, ns, acc, fuel) ==
  IF \E i \in 1..Len(acc) : acc[i] = [f |-> f, ns |-> ns] THEN acc
  ELSE LET acc1 == Append(acc, [f |-> f, ns |-> ns]) IN
       IF fuel = 0 THEN acc1 ELSE IUses(File(f).uses, 1, ns, acc1, fuel)
IUses(uses, i, ns, acc, fuel) ==
  IF i > Len(uses) THEN acc
  ELSE IUses(uses, i + 1, ns,
             IProc(uses[i].f, IF uses[i].ns = "" THEN ns ELSE Append(ns, uses[i].ns), acc, fuel - 1), fuel)
IConfigs == IProc("R", <<>>, <<>>, 3)

(*************************** _create_tasks *********************************)
\* (the stages are functions of the previous stage's result, passed explicitly: TLC evaluates each stage once)
\* the text of a task's full name under a config
INameTxt(m, c) == Text([ns |-> m.ns, grp |-> Slug[c].grp, name |-> Slug[c].name])
IDeclared(m) == SelectSeq(ClassOrder, LAMBDA c : c \in File(m.f).tasks /\ ~Abstract[c] /\ c \notin File(m.f).excl)

\* registry: sequence of [name (text), cls, ci (index of the declaring config)]; conflict flag
RECURSIVE IRegTasks(_, _, _, _, _)
IRegTasks(cfgs, ci, cs, k, st) ==
  IF k > Len(cs) THEN st
  ELSE LET name == INameTxt(cfgs[ci], cs[k])
           clash == \E j \in 1..Len(st.reg) : st.reg[j].name = name /\ st.reg[j].ci # ci
           entry == [name |-> name, cls |-> cs[k], ci |-> ci]
           reg1 == IF \E j \in 1..Len(st.reg) : st.reg[j].name = name
                   THEN [j \in 1..Len(st.reg) |-> IF st.reg[j].name = name THEN entry ELSE st.reg[j]]
                   ELSE Append(st.reg, entry)
       IN IRegTasks(cfgs, ci, cs, k + 1, [reg |-> reg1, conflict |-> st.conflict \/ clash])
RECURSIVE ICreate(_, _, _)
ICreate(cfgs, ci, st) == IF ci > Len(cfgs) THEN st
                         ELSE ICreate(cfgs, ci + 1, IRegTasks(cfgs, ci, IDeclared(cfgs[ci]), 1, st))

\* Task(config): every parameter takes the config's value (file values, then the context), else its default
IParamVal(m, p) ==
  LET e == Effective(m) IN
  IF p.cfg \in DOMAIN e THEN (IF p.int /\ e[p.cfg] = NotAnInt THEN [err |-> "type"] ELSE [v |-> e[p.cfg]])
  ELSE IF p.def # <<>> THEN [v |-> p.def[1]]
  ELSE [err |-> "missing"]
IParamErr(cfgs) == \E ci \in 1..Len(cfgs) : \E k \in 1..Len(IDeclared(cfgs[ci])) :
                     LET c == IDeclared(cfgs[ci])[k] IN
                     \E i \in 1..Len(Params[c]) : "err" \in DOMAIN IParamVal(cfgs[ci], Params[c][i])

(*************************** _process_dependencies *************************)
IStartsWith(t, pre) == Len(t) >= Len(pre) /\ SubSeq(t, 1, Len(pre)) = pre
INsTxt(t) == LET parts == SplitNs(t, <<>>) IN JoinNs(SubSeq(parts, 1, Len(parts) - 1))
ILastTxt(t) == LET parts == SplitNs(t, <<>>) IN parts[Len(parts)]
\* re.fullmatch('(.*:)?NAME', last part)
IPatternMatch(last, nm) == LET n == CharsOf(nm) IN last = n \/ IsSuffix(<<":">> \o n, last)
IRefTxt(ref) == Text([ns |-> <<>>, grp |-> ref.grp, name |-> ref.name])
IQualify(nsTxt, ref) ==
  IF nsTxt # <<>> /\ ~IStartsWith(ref, IF PrefixSep THEN nsTxt \o Sep ELSE nsTxt) THEN nsTxt \o Sep \o ref ELSE ref

\* _expand_tasks: a pattern becomes the registered names (registration order) of the task's own namespace that match
IExpand(reg, entry, inp) ==
  IF inp.kind = "pattern"
  THEN LET hit == SelectSeq(reg, LAMBDA r : INsTxt(r.name) = INsTxt(entry.name) /\ IPatternMatch(ILastTxt(r.name), inp.ref.name))
       IN [j \in 1..Len(hit) |-> hit[j].name]
  ELSE <<IRefTxt(inp.ref)>>
\* one expanded reference -> [txt] | [absent] | [err]
IWireRef(names, entry, inp, x) ==
  LET q == IQualify(INsTxt(entry.name), x)
      r == IFindTxt(IEndsWith, TRUE, FALSE, q, names) IN
  LET missing == IF inp.kind = "opt" THEN [absent |-> TRUE] ELSE [err |-> "input"] IN
  IF "err" \in DOMAIN r THEN missing
  \* a reference by class keeps the class's own qualified slug as the key (tasks[input_task_name]).  Repaired: a lookup
  \* that only finds a namesake in another group counts as not found; the pinned 1.4.0 code (ClassRefExact = FALSE)
  \* then raised a bare KeyError whatever the declaration said - also for an optional input
  ELSE IF ByClass(inp) THEN (IF q \in names THEN [txt |-> q] ELSE IF ClassRefExact THEN missing ELSE [err |-> "input"])
  ELSE r
IWired(reg, names, entry) ==
  UNION {LET inp == Inputs[entry.cls][i]
             xs == IExpand(reg, entry, inp) IN
         {IWireRef(names, entry, inp, xs[j]) : j \in 1..Len(xs)} : i \in 1..Len(Inputs[entry.cls])}

(*************************** second pass / _build_graph ********************)
\* ins: sequence (by registry index) of the sets of input names
RECURSIVE IUp(_, _, _, _)
IUp(reg, ins, S, fuel) ==
  IF fuel = 0 THEN S
  ELSE IUp(reg, ins, S \cup UNION {ins[CHOOSE j \in 1..Len(reg) : reg[j].name = t] : t \in S}, fuel - 1)

(*************************** I = P *****************************************)
POut == {[name |-> Text(NameOf(n)),
          cls |-> n.c,
          params |-> [i \in 1..Len(Params[n.c]) |-> ParamVal(n, Params[n.c][i]).v],
          ins |-> {Text(NameOf(k)) : k \in InputsOf(n)},
          req |-> {Text(NameOf(k)) : k \in Required(n)}] : n \in Nodes}
ImplResult ==
  \E cfgs \in {IConfigs} : \E st \in {ICreate(cfgs, 1, [reg |-> <<>>, conflict |-> FALSE])} :
  \E names \in {{st.reg[j].name : j \in 1..Len(st.reg)}} :
  \E wired \in {[j \in 1..Len(st.reg) |-> IWired(st.reg, names, st.reg[j])]} :
  \E ins \in {[j \in 1..Len(st.reg) |-> {w.txt : w \in {w \in wired[j] : "txt" \in DOMAIN w}}]} :
    LET reg == st.reg
        inputErr == \E j \in 1..Len(reg) : \E w \in wired[j] : "err" \in DOMAIN w
        cyclic == \E j \in 1..Len(reg) : reg[j].name \in IUp(reg, ins, ins[j], 8)
        ierror == st.conflict \/ IParamErr(cfgs) \/ inputErr \/ cyclic
        iout == {[name |-> reg[j].name, cls |-> reg[j].cls,
                  params |-> [i \in 1..Len(Params[reg[j].cls]) |-> IParamVal(cfgs[reg[j].ci], Params[reg[j].cls][i]).v],
                  ins |-> ins[j], req |-> IUp(reg, ins, ins[j], 8)] : j \in 1..Len(reg)}
    IN /\ ierror <=> IsError
       /\ ~IsError => iout = POut
\* the walk registers exactly the mounts of the property level
ConfigsAreMounts == {IConfigs[i] : i \in 1..Len(IConfigs)} = Mounts

(*************************** enumeration (parallel) ************************)
\* Resolve's Init computes every forest in one thread; here the root `uses` choice is the initial state and the rest
\* of the forest is chosen by one step, so that TLC's workers share the forests
VARIABLE ready
ivars == <<vars, ready>>
InitI == /\ ready = FALSE
         /\ \E i1 \in 1..Len(RootUsesMenu) : rootUses = RootUsesMenu[i1]
         /\ rootTasks = RootTasksMenu[1] /\ p1 = P1Menu[1] /\ p2 = P2Menu[1] /\ ctx = CtxMenu[1]
NextI == /\ ~ready /\ ready' = TRUE /\ UNCHANGED rootUses
         /\ \E i2 \in 1..Len(RootTasksMenu), i3 \in 1..Len(P1Menu), i4 \in 1..Len(P2Menu), i5 \in 1..Len(CtxMenu) :
              /\ ((CHOOSE i1 \in 1..Len(RootUsesMenu) : RootUsesMenu[i1] = rootUses) * 7
                   + i2 * 11 + i3 * 13 + i4 * 17 + i5 * 19 + Seed) % Mod = 0
              /\ rootTasks' = RootTasksMenu[i2] /\ p1' = P1Menu[i3] /\ p2' = P2Menu[i4] /\ ctx' = CtxMenu[i5]
ImplConforms == ready => ImplResult
MountsConform == ready => ConfigsAreMounts
=============================================================================
