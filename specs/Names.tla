------------------------------ MODULE Names ------------------------------
(***************************************************************************)
(* C10: TLC enumerates name sets and queries (as initial states), checks   *)
(* IFind = PFind (NameRes) on every one and prints each case for the       *)
(* binding to the real _find_task_full_name and chain lookups.             *)
(***************************************************************************)
EXTENDS NameRes, TLC, Json

CONSTANTS NsMenu,    \* namespace paths: sequences of tokens, e.g. <<>>, <<"n">>, <<"xn","n">>
          GrpMenu,   \* group paths
          NameMenu,  \* task names
          MaxSet,    \* size of the name sets enumerated
          Emit       \* print every case (generation runs)

Universe == {[ns |-> n, grp |-> g, name |-> a] : n \in NsMenu, g \in GrpMenu, a \in NameMenu}

(*************************** enumeration ***********************************)
VARIABLES names, query
vars == <<names, query>>

Queries(S) == UNION {Forms(t) : t \in S} \cup {[ns |-> <<>>, grp |-> <<>>, name |-> a] : a \in NameMenu}
                \cup {[ns |-> <<"n">>, grp |-> <<>>, name |-> a] : a \in NameMenu}

NameSets == IF MaxSet = 1 THEN {{a} : a \in Universe}
            ELSE IF MaxSet = 2 THEN {{a, b} : a \in Universe, b \in Universe}
            ELSE {{a, b, c} : a \in Universe, b \in Universe, c \in Universe}
Init == /\ names \in NameSets
        /\ query \in Queries(names)
Next == UNCHANGED vars
Spec == Init /\ [][Next]_vars

\* distinct names have distinct texts (the harness renders texts itself)
TextInjective == \A s, t \in names : Text(s) = Text(t) => s = t

\* I = P: the (repaired) code's resolution is the property's resolution
FindConforms == IFind(query, names) = PFind(query, names)

\* C10: a unique form resolves to its task; the result is a member or an error; no dependence on order (sets)
UniqueResolves == \A t \in names : (\A u \in names : PMatch(query, u) => u = t) /\ PMatch(query, t)
                     => PFind(query, names) = t
ResultSane == LET r == PFind(query, names) IN r \in names \/ r \in {NotFound, Ambiguous}

\* the defect of the pinned code: textual suffix priority; TLC finds n::a / xn::a
TextualConforms == IFindTextual(query, names) = PFind(query, names)

Out(r) == IF r \in {NotFound, Ambiguous} THEN r ELSE [ns |-> r.ns, grp |-> r.grp, name |-> r.name]
EmitCase == Emit => PrintT("@@" \o ToJson([tag |-> "N", names |-> names, q |-> query,
                                           r |-> Out(PFind(query, names)),
                                           textual |-> Out(IFindTextual(query, names))]))
=============================================================================
