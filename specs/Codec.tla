------------------------------- MODULE Codec -------------------------------
(***************************************************************************)
(* Stored values round-trip exactly (C06) - the state-machine part.        *)
(*                                                                         *)
(* What TLA+ can say here: the value the computing chain returns, the      *)
(* value it holds, the value stored and the value every later chain loads  *)
(* are ONE value; loading is read-only; "falsy" values (0, "", [], {},     *)
(* False, empty array / frame) are values, not absences.  The encodings    *)
(* themselves (orjson, .npy, pickle) are functions TLC never sees: Enc/Dec *)
(* are the identity here and the claim  Dec(Enc(v)) = v  is what the       *)
(* binding tests, on every shape TLC enumerates filled with every named    *)
(* boundary atom of the data kind.  See DESIGN.md section 9.               *)
(***************************************************************************)
EXTENDS Naturals, Sequences, TLC, Json

CONSTANTS Kinds,     \* data kinds
          AtomsOf,   \* AtomsOf[kind]: names of boundary atoms (model values given as strings)
          Falsy,     \* atoms that are falsy in Python
          Emit

\* value shapes: an atom, or a container of atoms / containers (depth <= 2)
A(a) == [s |-> "atom", a |-> a]
ShapesOf(kind) ==
  LET at == {A(a) : a \in AtomsOf[kind]}
      one == CHOOSE a \in AtomsOf[kind] : TRUE
  IN at \cup {[s |-> "empty-list"], [s |-> "empty-map"]}
        \cup {[s |-> "list1", x |-> x] : x \in at} \cup {[s |-> "map1", x |-> x] : x \in at}
        \cup {[s |-> "list-of-list", x |-> x] : x \in at} \cup {[s |-> "map-in-list-in-map", x |-> x] : x \in at}
        \cup {[s |-> "pair", x |-> x, y |-> A(one)] : x \in at}
        \cup {[s |-> "long", n |-> n] : n \in {101, 1001}}     \* n different members: the order must survive storage

VARIABLES kind, val,     \* the case
          mem,           \* value held by the computing chain: <<>> or <<v>>
          disk,          \* value stored: <<>> or <<v>>
          got,           \* value returned by the last read: <<>> or <<v>>
          reads,         \* number of loads by later chains
          writes         \* number of times the stored files were written
vars == <<kind, val, mem, disk, got, reads, writes>>

Init == /\ kind \in Kinds /\ val \in ShapesOf(kind)
        /\ mem = <<>> /\ disk = <<>> /\ got = <<>> /\ reads = 0 /\ writes = 0
\* run returns val; the chain holds it, stores it and returns it
Compute  == mem = <<>> /\ disk = <<>> /\ mem' = <<val>> /\ disk' = <<val>> /\ got' = <<val>> /\ writes' = writes + 1
            /\ UNCHANGED <<kind, val, reads>>
\* the computing chain is asked again
ReadSame == mem # <<>> /\ got' = mem /\ UNCHANGED <<kind, val, mem, disk, reads, writes>>
\* a later chain (fresh objects, possibly another process) loads
FreshLoad == disk # <<>> /\ reads < 2 /\ got' = disk /\ reads' = reads + 1 /\ UNCHANGED <<kind, val, mem, disk, writes>>
Next == Compute \/ ReadSame \/ FreshLoad
Spec == Init /\ [][Next]_vars

\* C06
RoundTrip     == got # <<>> => got = <<val>>
HeldIsStored  == (mem # <<>> /\ disk # <<>>) => mem = disk
LoadIsReadOnly == [][reads' > reads => (disk' = disk /\ writes' = writes)]_vars
\* a falsy value is a value: once computed it is held, stored and returned like any other
FalsyIsAValue == (val.s = "atom" /\ val.a \in Falsy /\ writes > 0) => (mem = <<val>> /\ disk = <<val>>)

EmitCase == (Emit /\ reads = 2) => PrintT("@@" \o ToJson([tag |-> "V", kind |-> kind, val |-> val]))
=============================================================================
