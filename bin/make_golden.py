#!/venv/bin/python
"""One-off: compute golden key vectors with the library at the PINNED commit (PYTHONPATH must point to its src)."""
import json, os, sys, random, shutil, tempfile, warnings
warnings.filterwarnings('ignore')
sys.path.insert(0, '/verif/harness')
os.environ['TQDM_DISABLE'] = '1'
import taskchain
assert '/tmp/wt_pinned' in taskchain.__file__, taskchain.__file__
from tcverif import key_check
from tcverif.core import Ctx
ctx = Ctx('C12', 'quick', 0)
cases = key_check.enumerate_cases(ctx, 1)
rng = random.Random(1)
pick = [c for c in cases if c['va']['t'] in ('lit', 'int', 'flt', 'str')] + rng.sample(cases, 60)
out = []
key_check.module()
for i, c in enumerate(pick):
    root = tempfile.mkdtemp()
    chain, pre = key_check.realise('dict', key_check.to_py(c['va']), c['yv'], c['zv'], root + '/d', __import__('pathlib').Path(root) / 'w', random.Random(i))
    out.append({'repr': c['repr'], 'yv': c['yv'], 'zv': c['zv'],
                'keys': {t: chain[n].name_for_persistence for t, n in key_check.TASKNAME.items()}})
    shutil.rmtree(root)
json.dump(out, open('/verif/specs/golden_keys.json', 'w'), indent=0)
print(len(out), 'golden vectors written from', taskchain.__file__)
