#!/venv/bin/python
"""Checks of behaviour outside the twenty listed properties (not registered in MANIFEST.checks; documented in DESIGN.md
section 0.8): specs/Decorators.tla bound to utils/clazz.persistent and repeat_on_error."""
import json
import os
import sys
import warnings
from pathlib import Path

os.environ.setdefault('TQDM_DISABLE', '1')
ROOT = Path(__file__).resolve().parents[1]
os.environ.setdefault('TCVERIF_EVIDENCE_DIR', str(ROOT / 'evidence_extras'))   # not a property: keep /verif/evidence clean
sys.path.insert(0, str(ROOT / 'harness'))
sys.path.insert(0, os.environ.get('TASKCHAIN_REPO', '/repo') + '/src')
warnings.filterwarnings('ignore')

from tcverif.core import Ctx, main_guard  # noqa: E402
from tcverif.tlc import account, run_tlc  # noqa: E402


def body():
    ctx = Ctx('X01', 'quick', int(os.environ.get('VERIF_SEED', '0') or 0))
    cfg = ('CONSTANTS\n  Retries = 4\n  MaxCalls = 4\n  Emit = TRUE\nINIT Init\nNEXT Next\nINVARIANT RetryCorrect\n'
           'INVARIANT OnceStored\nINVARIANT EmitR\nINVARIANT EmitP\n')
    res = run_tlc('Decorators', cfg_text=cfg, workers=4, timeout=600)
    account(ctx, res, 'Decorators: every outcome sequence of 4 attempts / 4 calls')
    import time
    from taskchain.utils import clazz
    seen = set()
    sleeps = []
    real_sleep = clazz.sleep
    clazz.sleep = lambda s: sleeps.append(s)
    try:
        for c in res.by_tag('R'):
            key = json.dumps(c['outcomes'])
            if key in seen:
                continue
            seen.add(key)
            n = [0]
            sleeps.clear()

            class O:
                @clazz.repeat_on_error(retries=4, waiting_time=2, wait_extension=3)
                def m(self):
                    n[0] += 1
                    if not c['outcomes'][n[0] - 1]:
                        raise KeyError(n[0])
                    return n[0]
            try:
                r = O().m()
                got = 'ok'
            except KeyError:
                got = 'raised'
            ctx.case('R' + key)
            if got != c['result'] or n[0] != c['attempts'] or len(sleeps) != c['waits'] or sleeps != [2 * 3 ** i for i in range(len(sleeps))]:
                ctx.report(f'repeat:{key}', f'repeat_on_error with attempt outcomes {c["outcomes"]}: {got}, {n[0]} attempts, sleeps '
                                            f'{sleeps}; expected {c["result"]}, {c["attempts"]} attempts, {c["waits"]} sleeps 2,6,18,..')
        seen.clear()
        for c in res.by_tag('P'):
            key = json.dumps(c['returnsNone'])
            if key in seen:
                continue
            seen.add(key)
            n = [0]

            class P:
                @clazz.persistent
                def m(self):
                    n[0] += 1
                    return None if c['returnsNone'][n[0] - 1] else n[0]
            o = P()
            vals = [o.m() for _ in range(4)]
            ctx.case('P' + key)
            if n[0] != c['execs']:
                ctx.report(f'persistent:{key}', f'persistent method executed {n[0]} times over 4 calls with None-returns '
                                                f'{c["returnsNone"]}, expected {c["execs"]} (values {vals})')
    finally:
        clazz.sleep = real_sleep
    ctx.traces = ctx.evaluations
    ctx.sample({'outcomes': [False, True, True, True], 'expected': 'ok after 2 attempts, 1 sleep'})
    return ctx.finish()


if __name__ == '__main__':
    sys.exit(main_guard(body))
