#!/bin/sh
# Offline setup: nothing to build. Parses every specification with SANY and checks the Python side imports.
set -e
cd "$(dirname "$0")/.."
mkdir -p evidence replays
fail=0
for f in specs/*.tla; do
  case "$f" in *Trace*|*MC*) ;; esac
  if ! (cd specs && tla-sany "$(basename "$f")" > /tmp/tcverif-sany.$$ 2>&1); then
    if grep -q "Could not find module\|Unknown operator" /tmp/tcverif-sany.$$; then :; fi
    echo "SANY failed on $f"; tail -5 /tmp/tcverif-sany.$$; fail=1
  fi
done
rm -f /tmp/tcverif-sany.$$
PYTHONPATH=harness:/repo/src TQDM_DISABLE=1 /venv/bin/python -W ignore -c "import tcverif.core, tcverif.tlc, tcverif.gen, tcverif.families, tcverif.store_replay; print('harness imports ok')"
exit $fail
