#!/usr/bin/env python3
"""Run every confirmed seeded change against its property's quick check (plus the checks known to catch it) and
write /verif/seeded/DETECTION.md.   seed_matrix.py run [N parallel]   |   seed_matrix.py table"""
import json
import subprocess
import sys
from concurrent.futures import ThreadPoolExecutor
from pathlib import Path

ROOT = Path(__file__).resolve().parents[1]
SEEDED = ROOT / 'seeded'
# checks other than the seed's own property that are known to catch it (a violated property often shows elsewhere)
ALSO = {'C01_1': ['C09'], 'C01_2': ['C02', 'C03'], 'C01_3': ['C05'], 'C04_1': ['C06'], 'C06_2': ['C05'], 'C10_4': ['C08'],
        'C01_r2_1': ['C09'], 'C01_r2_2': ['C03', 'C12'], 'C01_r2_3': ['C06'], 'C02_r2_3': ['C12'], 'C07_3': ['C06'],
        'C06_r2_1': ['C05'], 'C10_r2_1': ['C08'], 'C12_r2_3': ['C02'], 'C14_r2_2': ['C15'], 'C15_r2_2': ['C14'],
        'C01_r3_1': ['C08'], 'C01_r3_2': ['C03'], 'C01_r3_3': ['C05'], 'C04_r3_3': ['C02'], 'C19_r2_4': ['C09'],
        'C06_r3_1': ['C05'], 'C10_r3_1': ['C08'], 'C10_r3_2': ['C13'], 'C11_r3_1': ['C02'],
        'C01_r4_1': ['C09'], 'C01_r4_2': ['C05'], 'C05_r4_3': ['C07'], 'C01_r4_3': ['C03']}


def seeds():
    return sorted(d.name for d in SEEDED.iterdir() if (d / 'patch.diff').exists())


def run_one(s):
    meta = json.loads((SEEDED / s / 'meta.json').read_text())
    props = [meta.get('property') or s[:3]] + ALSO.get(s, [])
    p = subprocess.run([sys.executable, str(ROOT / 'bin' / 'seedtool.py'), 'run', s] + props, capture_output=True, text=True)
    return s, p.stdout.strip().splitlines()[-len(props):]


def table():
    rows = []
    caught = missed = obsolete = 0
    for s in seeds():
        m = json.loads((SEEDED / s / 'meta.json').read_text())
        det = m.get('detection', {})
        hits = [p for p, r in det.items() if isinstance(r, dict) and r.get('exit') == 1 and r.get('violations', 0) > 0]
        mach = [p for p, r in det.items() if isinstance(r, dict) and r.get('exit') == 2]
        if m.get('status', '').startswith('obsolete') or det.get('_note'):
            status = 'obsolete (' + (m.get('status') or det.get('_note'))[:80] + ')'
            if hits:
                status += '; caught by ' + ', '.join(sorted(hits)) + ' while it still applied'
            obsolete += 1
        elif hits:
            status = 'caught by ' + ', '.join(sorted(hits))
            caught += 1
        else:
            status = 'NOT caught' + (f' (machinery failure in {mach})' if mach else '')
            missed += 1
        summary = (m.get('summary') or '').replace('\n', ' ').replace('|', '/')[:150]
        rows.append(f"| {s} | {m.get('property', s[:3])} | {summary} | {status} |")
    out = ['# Seeded changes and which checks catch them', '',
           f'{caught + missed + obsolete} confirmed seeded changes (written by independent sub-agents that saw only the property text): '
           f'**{caught} caught**, {missed} not caught, {obsolete} obsolete at the current /repo HEAD (they no longer apply or '
           f'rely on a defect that has since been repaired).', '',
           '| seed | property | change | result of the quick checks |', '|---|---|---|---|'] + rows
    (SEEDED / 'DETECTION.md').write_text('\n'.join(out) + '\n')
    print(f'caught {caught}, missed {missed}, obsolete {obsolete}')


if __name__ == '__main__':
    if sys.argv[1] == 'run':
        n = int(sys.argv[2]) if len(sys.argv) > 2 else 3
        only = sys.argv[3:] or seeds()
        with ThreadPoolExecutor(n) as ex:
            for s, lines in ex.map(run_one, only):
                print(s, ' | '.join(l[:120] for l in lines), flush=True)
    table()
