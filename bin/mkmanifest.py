#!/usr/bin/env python3
"""Regenerates MANIFEST.json from the table below (single source for the interface file)."""
import json
from pathlib import Path

ROOT = Path(__file__).resolve().parents[1]
PY = '/venv/bin/python'

CHECKS = {
    'C01': dict(
        cat='model_checking', ref='DESIGN.md 4.4, 6/C01', engine='store',
        technique='TLA+ StoreAtomic model checked with TLC; TLC edge cover + random walks + -simulate behaviours '
                  'replayed on the real library with provenance-carrying tasks',
        text='TLC checks NoForeignValue/StoreSound/HeldOnlyOwn on every reachable state of StoreAtomic (histories of '
             'chain constructions, requests, forcing, failing runs, restarts over one directory, families of '
             'configurations incl. namespace mounts and contexts). Every exported transition is replayed on the real '
             'code: after every step all held, returned and stored values of all tasks are compared with the '
             'reference value of the TLC state; a fresh process finally requests every task of every configuration.',
        note='Bounded: <= 4 tasks x <= 4 configurations x 2 chain variables, MaxSteps 4-6 exhaustively, depth 12-18 by '
             'simulation. Generated tasks are deterministic; SHA-256/128 assumed collision free; held-ness is read '
             'from task._data.'),
    'C04': dict(
        cat='model_checking', ref='DESIGN.md 4.4, 6/C04', engine='store',
        technique='TLA+ StoreAtomic (AtMostOnce, RunsJustified, OnlyOnDemand, RunOnlyIfNeeded, UnforcedLoads) checked '
                  'with TLC; behaviours replayed on the real library comparing the run log of every call; traces of the '
                  'repository test-suite and of the replays validated against StoreTrace.tla by TLC',
        text='TLC checks, with history counters, that without forcing/failure/deletion no location is run twice over '
             'any interleaving of constructions, requests, inspections and restarts, and that every run is justified. '
             'Replay compares the exact sequence of run invocations of every public call (zero for loads, held values, '
             'construction and inspection: tasks_df, has_data, paths, run_info, log, readable links, str/repr). In the '
             'other direction, the repository\'s own 128 tests are run under an observation plugin (no source change) and '
             'every event of Task.data\'s decision logic (exists / load / run / save / delete / force, per task object) '
             'of every test, and of 1500+ replayed behaviours, is validated by TLC against StoreTrace.tla; corrupted '
             'traces are shown to be rejected (binding self-test).',
        note='Run invocations are observed inside generated run bodies. Chain.draw() excluded (no graphviz).'),
    'C07': dict(
        cat='model_checking', ref='DESIGN.md 4.4, 6/C07', engine='store',
        technique='TLA+ StoreAtomic action properties ForceExact/ForcedRuns/UnforcedLoads/MultiForceAll checked with '
                  'TLC over all force sets; behaviours replayed comparing is_forced, has_data, run multisets',
        text='TLC checks that chain.force marks exactly the downstream closure, deletes exactly those results, '
             'recompute runs each marked task exactly once, forced tasks re-run once and replace the result, unforced '
             'ones are served from storage. Replay compares is_forced of every task, has_data / files of every '
             'computation, the runs of every call and all values.',
        note='recompute iterates a Python set: runs of force steps are compared as multisets.'),
    'C13': dict(
        cat='model_checking', ref='DESIGN.md 4.4, 6/C13', engine='store',
        technique='TLA+ StoreAtomic with slots holding lists of configurations (object sharing per computation) '
                  'checked with TLC; behaviours replayed on real MultiChains next to standalone chains',
        text='Slots of the model hold MultiChains; objects are shared exactly per computation. Replay builds real '
             'MultiChains (also for single configs) and compares task-name sets and storage locations with the '
             'standalone chains, object identity across members (is <=> same computation), held values across '
             'members after requests through one member, and forcing through the MultiChain.',
        note='MultiChain.force is modelled as the code does it: one chain.force per member in turn.'),
}

CHECKS.update({
    'C08': dict(
        cat='model_checking', ref='DESIGN.md 4.2, 6/C08', engine='resolve',
        technique='TLA+ Resolve (property-level resolution of config forests) enumerated and invariant-checked by TLC; '
                  'every enumerated forest built as real files + Chain and compared at object level',
        text='TLC enumerates config forests (root + two pipeline files, uses with/without namespaces up to depth 3, '
             'double mounts, exclusion, abstract tasks, by-class/by-name/group/pattern/optional inputs, dangling and '
             'cyclic declarations), checks EdgesLocal/TasksExact/ClosureLaw on each and prints the expected chain or '
             'Error; the harness builds each forest (JSON/YAML, shuffled declaration order) with the real library and '
             'compares task set, classes, input objects per task, required_tasks, dependent_tasks, '
             'is_task_dependent_on for all pairs, and error/no-error.',
        note='Menus of resolve_check.menus(); quick enumerates a seeded 1/61 slice of the product (about 7k forests), '
             'thorough 1/3. Aliases (one shared object, several names) compared at object level.'),
    'C09': dict(
        cat='model_checking', ref='DESIGN.md 4.2, 6/C09', engine='resolve',
        technique='TLA+ Resolve: Effective/precedence/NoLeak/Conflict checked by TLC on enumerated forests and contexts; '
                  'every forest built with the real Config/Chain and parameter values compared',
        text='Same enumeration as C08 with 8 context shapes (global, for_namespaces, lists, nested uses-as-namespace, '
             'nested namespaces). TLC checks NoLeak and Precedence on the property-level semantics; the harness '
             'compares every parameter value of every task (value and type), conflict / missing / wrong-type errors at '
             'construction, and that caller-owned context objects are left unchanged.',
        note='Values are small integers (99 stands for a string, to exercise dtype errors). Multi-config parts are not '
             'in the menus yet.'),
    'C10': dict(
        cat='model_checking', ref='DESIGN.md 4.2, 6/C10', engine='names',
        technique='TLA+ Names/NameRes: character-level transcription of _find_task_full_name checked equal to the '
                  'token-level property by TLC on all name sets; every case replayed on the function and on real chains',
        text='TLC enumerates all sets of <= 3 full names over namespace paths, group paths and names chosen to be '
             'textual suffixes of one another, and all queries; checks IFind = PFind, UniqueResolves, ResultSane; each '
             'case is pushed through _find_task_full_name under every order of the name list and through a real chain '
             'with exactly those tasks (chain[q], get, in, attribute, input_tasks[q]).',
        note='Quick replays all sets of <= 2 names (3.9k cases) and model-checks triples; thorough replays triples too.'),
})

CHECKS.update({
    'C02': dict(
        cat='model_checking', ref='DESIGN.md 4.3, 6/C02', engine='keys',
        technique='TLA+ KeyScheme (key = function of the computation descriptor) enumerated by TLC; each case realised '
                  'in 11 computation-preserving ways on the real library and required to give the specified key',
        text='TLC enumerates parameter values (atoms incl. quotes/separators/placeholders, lists, mappings, parameter '
             'objects) x persisted/ignored/default parameter variations and prints the key tree of every task; the '
             'harness builds each case as dict / file / renamed+moved file / YAML / permuted declarations and mapping '
             'keys / namespace / nested namespace / double mount / context dict / context file list / for_namespaces '
             'context, with random ignored and default-valued parameters and random global_vars behind placeholders; '
             'all must give sha256(spec key text)[:32]. Two fresh interpreters with different PYTHONHASHSEED compare '
             'keys of the object menu.',
        note='H uninterpreted in TLA+ (hashlib in the binding). Known findings D8a/D8b are matched by input class.'),
    'C03': dict(
        cat='model_checking', ref='DESIGN.md 4.3, 6/C03', engine='keys',
        technique='TLA+ KeyPairs: Injective invariant over all pairs of values checked by TLC; on the real code every '
                  'enumerated value is built into a chain and locations grouped to find distinct values sharing one',
        text='TLC checks InjectiveQuoteFree over all pairs (must hold) and exhibits the counterexample of Injective '
             '(unescaped quoting, known finding D7). Every enumerated value is placed in a parameter of a real chain; '
             'distinct values with one location are reported (confirmed by a stale read on the real code); the chain '
             'hash (a different upstream location moves every downstream location) and parameter variations of a '
             'downstream task are checked on the real keys.',
        note='Value universe bounded (depth <= 2, lengths <= 2, menu of atoms and objects). sha256/128 assumed '
             'collision free.'),
    'C12': dict(
        cat='model_checking', ref='DESIGN.md 4.3, 6/C12', engine='keys',
        technique='TLA+ KeyScheme as frozen transcription of the 1.4.0 scheme; TLC-enumerated cases compared with the '
                  'real keys, paths and side files; stores written from the spec must be read back without a run',
        text='For every enumerated case the real name_for_persistence must equal sha256(spec key text)[:32], the data '
             'path <groups>/<task>/<key>.<ext>, run-info and log names beside it (parameter mode and name mode); '
             'repr_from_instantiation must equal the spec text; results planted at the spec locations (JSON file, '
             'directory) must be found, loaded and nothing run; 100 golden vectors computed at the pinned commit pin '
             'hash and truncation.',
        note='The reference is never regenerated from /repo.'),
})

CHECKS.update({
    'C05': dict(
        cat='model_checking', ref='DESIGN.md 4.4, 5.4, 6/C05', engine='steps',
        technique='file-operation protocols RECORDED from the real code per data kind / phase / fault are model-checked '
                  'by TLC (StoreSteps: crash before every operation and inside every write), and every such crash '
                  'point and torn prefix is replayed on the real code with a later chain judging the outcome',
        text='For 8 data kinds x {first computation, forced recomputation over an existing result} x {fault-free, run '
             'raises, mistyped, unserializable, generator body raises} the harness records every file-system operation '
             'of the value request (harness-side interposition), abstracts it to operations on final/tmp/err/old '
             'objects and TLC explores all crash points checking VisibleIsComplete (via EmitBad), DoneMeansStored, '
             'FailPublishesNothing, WorkDirs. The same crash points (os._exit before operation k) and torn prefixes of '
             'every written file are then produced for real; a fresh interpreter must find either no result and '
             'recompute, or the complete value, and a second request must succeed.',
        note='Also: every operation made to FAIL (OSError) instead of the process dying; runs interrupted by KeyboardInterrupt; '
             'the same failure twice in a row; in-memory tasks; fault SEQUENCES (the recovering process dies too: recovery '
             'protocols recorded on the crashed directories go through StoreSteps again); specs/Resumable.tla for the work '
             'directories of resumable tasks. Python-level file operations; fsync/durability not modelled; 9 data kinds incl. '
             'FigureData; H5Data not exercised.'),
})

CHECKS.update({
    'C14': dict(
        cat='model_checking', ref='DESIGN.md 4.5, 6/C14', engine='cacheseq',
        technique='TLA+ CacheSeq (dictionary model with damage actions) checked by TLC; exported edge cover and random '
                  'walks replayed on JsonCache (both allow_nones), NumpyArrayCache, DataFrameCache',
        text='TLC explores all sequences of get / get_or_compute / force / raising computer / truncate / delete / '
             'foreign-key entry over two keys and a sub-cache, checking NeverReturnsDamage, GetNeverComputes, '
             'RaiseStoresNothing, SlotsIndependent, ForceReplaces, IntactIsServed; every transition is replayed on the '
             'real caches: returned value (type/dtype-exact), computer call count, CacheException for a foreign key, '
             'existence of every slot file; real files are cut to 0/1/half/n-1 bytes, overwritten with garbage or an '
             'empty document.',
        note='Keys from a pool of awkward unicode strings; values from a small generator per cache type.'),
    'C15': dict(
        cat='model_checking', ref='DESIGN.md 4.5, 5.5, 6/C15', engine='cache',
        technique='PlusCal/TLA+ Cache (one label per yield point of FileCache.get / get_or_compute) model-checked for '
                  '2-3 callers; TLC behaviours drive real threads through a deterministic scheduler; seeded random '
                  'schedules of the real yield points explored without the model',
        text='TLC checks ReturnsCompleted, QuiescentComplete, GetNeverComputes, MutualExclusion, NoNeedlessRecompute, '
             'GetFindsStable (and termination under fairness) for every interleaving of 2 and 3 callers x every mix of '
             'get / get_or_compute / force x entry present or absent, with the write split in two chunks. Simulated '
             'behaviours are executed on the real JsonCache with the real FileLock: each thread stops at every lock '
             'acquire/release, exists, open, read, compute, write-half, close; the scheduler releases exactly the '
             'thread the behaviour names and reports drift if the code is elsewhere. Independently, seeded random '
             'schedules over the real yield points are run and judged by the property alone.',
        note='filelock trusted; yield points are Python-level; threads stand for processes (same lock file protocol).'),
})

CHECKS.update({
    'C16': dict(
        cat='model_checking', ref='DESIGN.md 4.6, 6/C16', engine='cached',
        technique='TLA+ Cached: the decorator\'s binding loop transcribed and checked equal to Python\'s binding by TLC on '
                  'every spelling of every binding of a signature menu; call sequences with control keywords replayed',
        text='Part A: TLC enumerates every legal spelling (positional prefix, keywords, omitted defaults) of every binding '
             'of 6 signatures (positional, defaulted, keyword-only, ignored parameters) over 3 JSON-distinct values and '
             'checks IBind = Bind, KeyIsBinding; all spellings are called on real objects (InMemoryCache, JsonCache, '
             'decorator-argument cache) in random order and keyword order: one invocation and one entry per binding, '
             'arguments received as bound. Part B: TLC explores sequences of plain / force_cache / only_cache / '
             'store_cache_value calls over 3 methods-versions x 2 bindings; the edge cover is replayed with random '
             'spellings comparing invocation counts and returned entries.',
        note='Signatures without *args/**kwargs.'),
    'C17': dict(
        cat='model_checking', ref='DESIGN.md 4.6, 6/C17', engine='parmap',
        technique='TLA+ ParMap (queue / in-flight / completion order / chunk loop) model-checked over all completion '
                  'orders; complete behaviours replayed on both parallel_map implementations with completions dictated '
                  'by gating the mapped function; chunked checked against the Chunked operator',
        text='TLC checks EqualsMap, PermutationPerChunk, ExactlyOnce, RaisePropagates, Bounded, ChunkLaw for n<=5(6), '
             'threads 1-3, chunk sizes 1,2,3,4,6, sort on/off, a raising element, every completion order. Complete '
             'behaviours are executed on utils.threading.parallel_map and utils.iter.parallel_map: the harness releases '
             'worker i exactly when the behaviour says Complete(i) (observed through Future.set_result). Result list, '
             'per-element call counts, exception propagation and per-chunk permutation are compared; chunked is compared '
             'on lists, generators and ranges for lengths 0-9 x sizes 1-5.',
        note='For sort=False only "permutation within each chunk" is demanded, as the property states.'),
})

CHECKS.update({
    'C06': dict(
        cat='model_checking', ref='DESIGN.md 4.6, 6/C06, 9', engine='codec',
        technique='TLA+ Codec: history machine (compute, re-read, two fresh loads) model-checked; TLC-enumerated value '
                  'shapes x named boundary atoms per data kind replayed on real chains with exact comparison and file hashes',
        text='Partially applicable (DESIGN.md 9): TLC decides the state-machine part - returned, held, stored and loaded '
             'values are one value, loading is read-only, falsy values are values - and enumerates shapes (atoms, lists, '
             'mappings, nesting depth 2) per kind. The binding instantiates each shape with each boundary atom (JSON: 25 '
             'atoms incl. +-2^63, 2^64-1, -0.0, denormal, max float, unicode / separators / NUL / 12k-char strings; '
             'numpy: 11 dtypes x 5 shapes incl. 0-d and empty, string and bytes arrays; pandas: 14 frames / series; '
             'generated sequences; lists of arrays; directory trees) and compares what the computing chain returns, '
             're-reads and what two later chains load - type-, dtype-, shape-, order- and sign-exact - and hashes the '
             'stored files before and after every load.',
        note='A bounded, enumerated domain, not "all values": encodings (orjson, npy, pickle) are outside TLA+. '
             'FigureData/H5Data not exercised.'),
    'C11': dict(
        cat='model_checking', ref='DESIGN.md 4.6, 6/C11', engine='placeholders',
        technique='TLA+ Placeholders: the code\'s regular expression transcribed on character sequences and checked equal '
                  'to the property by TLC on all strings up to length 5-6; every case replayed on '
                  'search_and_replace_placeholders, on structures, copies and through Config',
        text='TLC enumerates all strings over {, }, A, B, x up to length 5 (quick) / 6 x 5 global_vars menus (incl. values '
             'containing placeholder syntax, names that are prefixes of one another) and checks ISubst = PSubst; the '
             'pinned lazy expression is shown to violate it (nested braces). Every case is run on the real function with '
             'mapping and object global_vars: result, ReprStr representation, ordinary-string behaviour, idempotence, '
             'copy/deepcopy, nested structures (keys and non-strings untouched, identity preserved); plus one Config '
             'exercising uses paths, context and for_namespaces values, object arguments, parameter value / repr, '
             'deepcopy(config) and key independence from the substituted value.',
        note='Alphabet and names are small by construction; tuples/sets inside config data are not exercised.'),
})

CHECKS.update({
    'C18': dict(
        cat='model_checking', ref='DESIGN.md 4.4, 6/C18', engine='store',
        technique='StoreAtomic behaviours (TLC edge cover, walks, -simulate) with failing runs, retries and forced '
                  'recomputations replayed on the real library; run-info YAML and log file of every visible result read '
                  'back after every step and compared with the run the model says produced it',
        text='Generated run bodies log two user messages and add two run-info records carrying a process-wide run number. '
             'After every step of every replayed behaviour the harness determines, from the model\'s run sequence, which '
             'run produced each visible result and requires: run-info records = that run\'s records in order; task name; '
             'parameter representations of the configuration used; input keys = locations of the inputs; namespace; log = '
             'exactly the two messages of that run, no line of another run or task, no NUL bytes.',
        note='Where the latest attempt failed (the log is then, by design, that of the failed attempt) only run info is '
             'compared. Timestamps / user / version not compared.'),
    'C19': dict(
        cat='model_checking', ref='DESIGN.md 6/C19', engine='helpers',
        technique='TLA+ TestHelpers enumerates every choice of real / mocked tasks and supplied parameters with the '
                  'expected value tree or construction error; each case executed with TestChain and create_test_task',
        text='All 260 cases of a 4-task pipeline (by-class, by-name, registry access, optional input, required / '
             'defaulted parameters): values of real tasks equal the provenance tree over mock values (falsy mock values '
             'included); mocks never run, return the supplied value and write no files; a missing input or required '
             'parameter raises at construction.',
        note='Mocks addressed by class or full slug name.'),
    'C20': dict(
        cat='model_checking', ref='DESIGN.md 6/C20', engine='migrate',
        technique='TLA+ Migrate model-checked over all subsets of stored results and sequences of dry / real migrations; '
                  'each case executed with migrate_to_parameter_mode on a generated file-based pipeline',
        text='For every subset of stored name-mode results (JSON, numpy, pandas, generated, directory; an in-memory task) '
             'and every sequence of dry/real migrations: target has_data map = source map after a real migration (empty '
             'before), values equal, requests run nothing, source result files byte-identical, a further migration '
             'changes no target result file, dry=True writes no result file.',
        note='Empty directories / logs / run-info created by inspection are not counted as modification.'),
})

PENDING = {
    'C02': 'check not built yet (KeyScheme specification in progress)',
    'C03': 'check not built yet (KeyScheme specification in progress)',
    'C05': 'check not built yet (StoreSteps specification in progress)',
    'C06': 'check not built yet (Codec specification in progress)',
    'C08': 'check not built yet (Resolve specification in progress)',
    'C09': 'check not built yet (Resolve specification in progress)',
    'C10': 'check not built yet (Resolve specification in progress)',
    'C11': 'check not built yet (Placeholders specification in progress)',
    'C12': 'check not built yet (KeyScheme specification in progress)',
    'C14': 'check not built yet (Cache specification in progress)',
    'C15': 'check not built yet (Cache specification in progress)',
    'C16': 'check not built yet (Cached specification in progress)',
    'C17': 'check not built yet (ParMap specification in progress)',
    'C18': 'check not built yet (run-info part of Store in progress)',
    'C19': 'check not built yet (TestChain part of Store in progress)',
    'C20': 'check not built yet (Migrate part of Store in progress)',
}


def main():
    checks = []
    for pid, c in sorted(CHECKS.items()):
        checks.append({
            'property_id': pid,
            'quick_cmd': f'{PY} /verif/bin/check.py {pid} --tier quick',
            'thorough_cmd': f'{PY} /verif/bin/check.py {pid} --tier thorough',
            'evidence_file': f'/verif/evidence/{pid}.json',
            'replay_cmd_template': f'{PY} /verif/bin/check.py {pid} --replay {{path}}',
            'engine': c['engine'],
            'level_claimed': {'category': c['cat'], 'text': c['text'], 'design_ref': c['ref']},
            'level_note': c['note'],
            'technique': c['technique'],
        })
    manifest = {
        'version': 1,
        'setup_cmd': '/verif/bin/setup.sh',
        'hooks': {
            'guard': 'TASKCHAIN_VERIF',
            'enable': 'no source hooks: observation is harness-side (generated task classes, file-system and lock '
                      'interposition inside the harness process); check.py sets TASKCHAIN_VERIF=1 for its own '
                      'interposition layer and imports /repo/src directly',
            'baseline_off_cmd': 'cd /repo && /venv/bin/python -m pytest -ra -q -p no:cacheprovider --timeout=900 '
                                '--continue-on-collection-errors',
            'source_commits': [],
            'add_only': True,
        },
        'engines': [
            {'name': 'resolve', 'path': '/verif/specs/Resolve.tla', 'serves_properties': ['C08', 'C09'],
             'kind_free_text': 'TLA+ property-level semantics of config forests; TLC enumerates forests as initial '
                               'states and prints expected resolutions; harness/tcverif/resolve_check.py binds'},
            {'name': 'resolveimpl', 'path': '/verif/specs/ResolveImpl.tla', 'serves_properties': ['C08', 'C09'],
             'kind_free_text': 'TLA+ implementation level: the stages of Chain._prepare on name texts; TLC checks ImplConforms '
                               '(= Resolve) on every forest; vacuity guards with the pinned prefix test and by-class lookup'},
            {'name': 'nameshist', 'path': '/verif/specs/NamesHist.tla', 'serves_properties': ['C10'],
             'kind_free_text': 'TLA+ state machine of a task registry (add / remove / lookup); behaviours stepped through a real '
                               'InputTasks'},
            {'name': 'naming', 'path': '/verif/specs/Naming.tla', 'serves_properties': ['C12'],
             'kind_free_text': 'TLA+ class -> group:name -> directory rules (Meta inheritance, ModuleTask, DoubleModuleTask); '
                               'harness/tcverif/naming_check.py creates the classes'},
            {'name': 'cachetrace', 'path': '/verif/specs/CacheTrace.tla', 'serves_properties': ['C15'],
             'kind_free_text': 'trace specification over Cache.tla: executions of free-running PROCESSES recorded under the '
                               'lock (harness/tcverif/cache_procs.py) validated by TLC in batch, all invariants at every step'},
            {'name': 'resumable', 'path': '/verif/specs/Resumable.tla', 'serves_properties': ['C05'],
             'kind_free_text': 'TLA+ model of resumable results (work directory kept until finished / deleted, forced until '
                               'finished); behaviours stepped through real ContinuesData tasks'},
            {'name': 'names', 'path': '/verif/specs/Names.tla', 'serves_properties': ['C10'],
             'kind_free_text': 'TLA+ name resolution, token level vs character-level transcription of the code'},
            {'name': 'keys', 'path': '/verif/specs/KeyScheme.tla', 'serves_properties': ['C02', 'C03', 'C12'],
             'kind_free_text': 'TLA+ transcription of the 1.4.0 key derivation on TLC strings (+ KeyPairs.tla); '
                               'harness/tcverif/key_check.py binds'},
            {'name': 'steps', 'path': '/verif/specs/StoreSteps.tla', 'serves_properties': ['C05'],
             'kind_free_text': 'TLA+ semantics of file operations on final/tmp/err/old objects with Crash; protocols are '
                               'recorded from the real code (harness/tcverif/fsops.py, faults.py)'},
            {'name': 'cacheseq', 'path': '/verif/specs/CacheSeq.tla', 'serves_properties': ['C14'],
             'kind_free_text': 'TLA+ dictionary model of file caches with damage actions; edge export + replay'},
            {'name': 'cache', 'path': '/verif/specs/Cache.tla', 'serves_properties': ['C15'],
             'kind_free_text': 'PlusCal model of FileCache.get/get_or_compute at yield-point granularity; '
                               'harness/tcverif/cache_sched.py schedules real threads'},
            {'name': 'cached', 'path': '/verif/specs/Cached.tla', 'serves_properties': ['C16'],
             'kind_free_text': 'TLA+ binding transcription + call-sequence dictionary for the cached decorator'},
            {'name': 'parmap', 'path': '/verif/specs/ParMap.tla', 'serves_properties': ['C17'],
             'kind_free_text': 'TLA+ model of chunked parallel map with arbitrary completion order'},
            {'name': 'codec', 'path': '/verif/specs/Codec.tla', 'serves_properties': ['C06'],
             'kind_free_text': 'TLA+ history machine + shape enumeration for round trips'},
            {'name': 'placeholders', 'path': '/verif/specs/Placeholders.tla', 'serves_properties': ['C11'],
             'kind_free_text': 'TLA+ substitution on character sequences, property vs regular-expression transcription'},
            {'name': 'storetrace', 'path': '/verif/specs/StoreTrace.tla', 'serves_properties': ['C04'],
             'kind_free_text': 'trace specification: recorded executions (repository test-suite, replays) validated by TLC '
                               'in batch; harness/tcverif/pytest_trace.py records, trace_check.py validates'},
            {'name': 'helpers', 'path': '/verif/specs/TestHelpers.tla', 'serves_properties': ['C19'],
             'kind_free_text': 'TLA+ enumeration of TestChain cases with expected value trees'},
            {'name': 'migrate', 'path': '/verif/specs/Migrate.tla', 'serves_properties': ['C20'],
             'kind_free_text': 'TLA+ model of migration between name-keyed and hash-keyed stores'},
            {'name': 'store', 'path': '/verif/specs/StoreAtomic.tla',
             'serves_properties': ['C01', 'C04', 'C07', 'C13', 'C18'],
             'kind_free_text': 'TLA+ specification of task objects / chains / data directory at public-call '
                               'granularity; TLC exhaustive + simulation; replay binding in harness/tcverif/store_*.py'},
        ],
        'checks': checks,
        'notes': 'All checks: /verif/bin/check.py <ID> --tier quick|thorough. Known findings and fixed defects: '
                 '/verif/known_findings.json. Exit 2 = machinery failure (never a VIOLATION).',
        'not_applicable': [{'property_id': k, 'reason': v} for k, v in sorted(PENDING.items()) if k not in CHECKS],
    }
    (ROOT / 'MANIFEST.json').write_text(json.dumps(manifest, indent=1) + '\n')
    print('MANIFEST.json written:', len(checks), 'checks,', len(manifest['not_applicable']), 'not claimed')


if __name__ == '__main__':
    main()
