#!/usr/bin/env python3
"""Confirm a seeded change and run checks against it.

  seedtool.py confirm <src_dir> <seed_id>      verify in a scratch worktree (suite passes, demo fails with / passes
                                               without the change) and keep it as /verif/seeded/<seed_id>/
  seedtool.py run <seed_id> [PROP ...]         apply the patch to /repo, run the quick checks, undo; record the result
"""
import json
import os
import shutil
import subprocess
import sys
import time
from pathlib import Path

VERIF = Path(__file__).resolve().parents[1]
SEEDED = VERIF / 'seeded'
PY = '/venv/bin/python'


def sh(cmd, cwd=None, env=None, timeout=3600):
    e = dict(os.environ)
    e.update(env or {})
    p = subprocess.run(cmd, shell=True, cwd=cwd, env=e, stdout=subprocess.PIPE, stderr=subprocess.STDOUT, text=True,
                       timeout=timeout)
    return p.returncode, p.stdout


def run_demo(wt, demo):
    env = {'PYTHONPATH': f'{wt}/src', 'TQDM_DISABLE': '1'}
    if demo.name.startswith('test_'):
        return sh(f'{PY} -m pytest -q -p no:cacheprovider {demo}', cwd=wt, env=env, timeout=600)
    return sh(f'{PY} {demo}', cwd=wt, env=env, timeout=600)


def confirm(src, seed_id):
    src = Path(src)
    wt = Path(f'/tmp/seedwt_{seed_id}_{os.getpid()}')
    rc, out = sh(f'git -C /repo worktree add -q --detach {wt} HEAD')
    assert rc == 0, out
    result = {'seed': seed_id, 'confirmed': False}
    try:
        demo = next((src / n for n in ('demo.py', 'test_demo.py') if (src / n).exists()), None)
        if demo is None:
            demo = next(iter(src.glob('*.py')))
        patch = src / 'patch.diff'
        rc, out = sh(f'git apply --check {patch}', cwd=wt)
        if rc != 0:
            result['error'] = 'patch does not apply to current HEAD: ' + out[-300:]
            return result
        rc0, out0 = run_demo(wt, demo)
        result['demo_without_change'] = rc0
        sh(f'git apply {patch}', cwd=wt)
        rc, out = sh(f'{PY} -m pytest -q -p no:cacheprovider -x', cwd=wt, env={'PYTHONPATH': f'{wt}/src'}, timeout=1200)
        tail = out.strip().splitlines()[-1] if out.strip() else ''
        result['suite_with_change'] = tail
        rc1, out1 = run_demo(wt, demo)
        result['demo_with_change'] = rc1
        result['demo_output_with_change'] = out1[-800:]
        ok = rc0 == 0 and rc1 != 0 and '128 passed' in tail
        result['confirmed'] = ok
        if ok:
            dst = SEEDED / seed_id
            dst.mkdir(parents=True, exist_ok=True)
            shutil.copy(patch, dst / 'patch.diff')
            shutil.copy(demo, dst / demo.name)
            meta = json.loads((src / 'meta.json').read_text()) if (src / 'meta.json').exists() else {}
            meta['confirmed'] = {'at_commit': sh('git -C /repo rev-parse --short HEAD')[1].strip(),
                                 'suite_with_change': tail, 'demo_without_change_exit': rc0,
                                 'demo_with_change_exit': rc1,
                                 'ran': [f'git apply patch.diff (scratch worktree of /repo HEAD)',
                                         f'{PY} -m pytest -q -p no:cacheprovider', f'{PY} {demo.name}']}
            (dst / 'meta.json').write_text(json.dumps(meta, indent=1) + '\n')
        return result
    finally:
        sh(f'git -C /repo worktree remove --force {wt}')
        shutil.rmtree(wt, ignore_errors=True)


def run(seed_id, props):
    """Run quick checks against the seeded change in a scratch worktree of /repo HEAD (TASKCHAIN_REPO points the
    checks at it), so /repo itself stays untouched and several seeds can be tried while other work goes on.
    Evidence written by these runs goes to a scratch directory, not /verif/evidence."""
    d = SEEDED / seed_id
    meta = json.loads((d / 'meta.json').read_text())
    props = props or [meta.get('property')]
    wt = Path(f'/tmp/seedrun_{seed_id}_{os.getpid()}')
    rc, out = sh(f'git -C /repo worktree add -q --detach {wt} HEAD')
    assert rc == 0, out
    results = {}
    try:
        rc, out = sh(f'git apply {d / "patch.diff"}', cwd=wt)
        if rc != 0:   # the tree moved on since the change was written (repairs nearby): try a three-way merge
            rc, out = sh(f'git apply --3way {d / "patch.diff"}', cwd=wt)
            if rc != 0 or sh('git diff --name-only --diff-filter=U', cwd=wt)[1].strip():
                meta.setdefault('detection', {})['_note'] = ('patch no longer applies at /repo HEAD ' +
                                                              sh('git -C /repo rev-parse --short HEAD')[1].strip())
                (d / 'meta.json').write_text(json.dumps(meta, indent=1) + '\n')
                print(seed_id, 'patch does not apply at current HEAD', flush=True)
                return {}
        for p in props:
            t0 = time.time()
            ev = Path(f'/tmp/seedrun_ev_{seed_id}_{os.getpid()}')
            rc, out = sh(f'{PY} {VERIF}/bin/check.py {p} --tier quick', cwd=VERIF, timeout=3000,
                         env={'TASKCHAIN_REPO': str(wt), 'TCVERIF_EVIDENCE_DIR': str(ev),
                              'TCVERIF_REPLAY_DIR': str(ev / 'replays')})
            lines = out.splitlines()
            viol = [i for i, l in enumerate(lines) if l.startswith('VIOLATION')]
            results[p] = {'exit': rc, 'violations': len(viol), 'wall_s': round(time.time() - t0),
                          'first': (lines[viol[0] + 1][:300] if viol and viol[0] + 1 < len(lines) else ''),
                          'at_repo_commit': sh('git -C /repo rev-parse --short HEAD')[1].strip(),
                          'at_verif_commit': sh(f'git -C {VERIF} rev-parse --short HEAD')[1].strip()}
            if rc == 2:
                results[p]['machinery'] = out[-400:]
            print(seed_id, p, 'exit', rc, 'violations', len(viol), results[p]['first'][:200], flush=True)
            shutil.rmtree(ev, ignore_errors=True)
    finally:
        sh(f'git -C /repo worktree remove --force {wt}')
        shutil.rmtree(wt, ignore_errors=True)
    meta.setdefault('detection', {}).update(results)
    (d / 'meta.json').write_text(json.dumps(meta, indent=1) + '\n')
    return results


if __name__ == '__main__':
    if sys.argv[1] == 'confirm':
        r = confirm(sys.argv[2], sys.argv[3])
        print(json.dumps(r, indent=1))
    elif sys.argv[1] == 'run':
        run(sys.argv[2], sys.argv[3:])
