#!/venv/bin/python
"""Entry point of every registered check:  check.py <ID> --tier quick|thorough   |   check.py <ID> --replay <file>"""
import argparse
import importlib
import os
import sys
from pathlib import Path

os.environ.setdefault('TQDM_DISABLE', '1')
os.environ['TASKCHAIN_VERIF'] = '1'
if os.environ.get('PYTHONHASHSEED') != '0':
    # string hashing must be the same in every run and every child: restart the interpreter with a fixed seed
    os.environ['PYTHONHASHSEED'] = '0'
    os.execv(sys.executable, [sys.executable] + sys.argv)

ROOT = Path(__file__).resolve().parents[1]
sys.path.insert(0, str(ROOT / 'harness'))
REPO = os.environ.get('TASKCHAIN_REPO', '/repo')
sys.path.insert(0, f'{REPO}/src')  # the current working tree of the repository, whatever is installed

import warnings  # noqa: E402

warnings.filterwarnings('ignore')
import logging  # noqa: E402

logging.getLogger().setLevel(logging.ERROR)
logging.getLogger('cache').setLevel(logging.CRITICAL)

from tcverif.core import Ctx, main_guard  # noqa: E402


def main():
    ap = argparse.ArgumentParser()
    ap.add_argument('prop')
    ap.add_argument('--tier', default=os.environ.get('VERIF_TIER', 'quick'), choices=['quick', 'thorough'])
    ap.add_argument('--replay', default=None)
    args = ap.parse_args()
    seed = int(os.environ.get('VERIF_SEED', '0') or 0)
    mod = importlib.import_module(f'tcverif.checks.{args.prop.lower()}')

    def body():
        ctx = Ctx(args.prop, args.tier, seed, level=getattr(mod, 'LEVEL', 'model_checking'))
        if args.replay:
            ctx.replay_mode = True
            import json
            from tcverif import store_check
            doc = json.loads(Path(args.replay).read_text())
            print(f"replaying {args.replay}: {doc.get('what', '')[:400]}")
            detail = doc.get('detail') or {}
            if isinstance(detail, dict) and 'behaviour' in detail and 'family' in detail and hasattr(store_check, 'replay_file'):
                # a StoreAtomic behaviour: re-execute exactly this behaviour on the current tree
                return store_check.replay_file(ctx, detail, getattr(mod, 'RELEVANT', None))
            if hasattr(mod, 'replay'):
                return mod.replay(ctx, doc)
            # other checks: the file documents the failing case; the case space is enumerated deterministically, so the
            # check itself is the replay (same seed)
            ctx.seed = doc.get('seed', ctx.seed)
            mod.run(ctx)
            return ctx.finish()
        mod.run(ctx)
        return ctx.finish()

    return main_guard(body)


if __name__ == '__main__':
    sys.exit(main())
