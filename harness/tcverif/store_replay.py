"""Replay of StoreAtomic behaviours (TLC edges) on the real library, with projection and comparison.

A behaviour is [(act, expected_state)].  It is executed in forked children, one per process epoch (a Restart
step ends the child), all on one data directory.  After every step the observable state of the real objects
and of the directory is projected to the specification's variables and compared.

Mismatch categories (which property a divergence contradicts):
  value   a returned / held / stored value is not the task's reference value             -> C01
  runs    the set (sequence) of run invocations of the call differs from the spec         -> C04 (C07 on force steps)
  visible has_data / result files differ from the spec's directory                        -> C01, C04, C05, C07
  forced  is_forced flags differ                                                         -> C07
  held    which objects hold a value in memory differs                                    -> C13 (noted elsewhere)
  share   object identity across member chains differs from "same computation"           -> C13
  error   a call raised although the spec says it succeeds (or vice versa)
  construct  Chain(...) / MultiChain(...) raised for a configuration the spec resolves          -> C08, C09, C13
"""
import json
import os
import shutil
import traceback
from pathlib import Path

from . import gen
from .core import scratch
from .families import FAMILIES, Model, build_config, module_for
from .procs import ChildCrashed, run_forked


def _read_result(kind, path: Path):
    """Independent reader of a stored result (not taskchain's loaders)."""
    import numpy as np
    import pickle

    if kind == 'json':
        return json.loads(path.read_text())
    if kind == 'numpy':
        return json.loads(bytes(np.load(str(path)).astype(np.uint8)).decode())
    if kind == 'pandas':
        return json.loads(pickle.loads(path.read_bytes())['blob'][0])
    if kind in ('generated', 'lazy'):
        items = [json.loads(l) for l in path.read_text().splitlines()]
        if items[1:] != [{'n': 1}, {'n': 2}]:
            raise ValueError('incomplete jsonl')
        return items[0]
    if kind == 'listnpy':
        files = sorted(path.glob('*.npy'), key=lambda f: int(f.stem))
        arrs = [np.load(str(f)) for f in files]
        tree = json.loads(bytes(np.concatenate(arrs[:2]).astype(np.uint8)).decode())
        extra = (4 - tree.get('#gen', 0) % 3) if '#gen' in tree else 1
        if len(arrs) != 2 + extra or any(list(a) != [0, 0] for a in arrs[2:]):
            raise ValueError(f'{len(arrs)} arrays stored, the run that wrote the first ones produced {2 + extra}')
        return tree
    if kind in ('dir', 'continues'):
        if (path / 'sub' / 'more.txt').read_text() != 'x' * 10:
            raise ValueError('incomplete dir')
        return json.loads((path / 'tree.json').read_text())
    raise ValueError(kind)


def strip_gen(tree):
    """a provenance tree without the generation tags (for comparison with the reference value)"""
    if isinstance(tree, dict):
        return {k: strip_gen(v) for k, v in tree.items() if k != '#gen'}
    if isinstance(tree, list):
        return [strip_gen(v) for v in tree]
    return tree


class Epoch:
    """State of one interpreter epoch inside the forked child."""

    def __init__(self, model: Model, base_dir: Path, workdir: Path, opts: dict):
        self.model = model
        self.fam = model.fam
        self.base = base_dir
        self.work = workdir
        self.opts = opts
        self.slots = {}
        self.nbuilt = 0
        self._paths = None
        self.genof = opts.get('_genof', {})   # computation d -> generation of the run whose result is stored
        self.stepno = opts.get('_stepno', 0)
        self.producer = opts.get('_producer', {})  # computation d -> RUNLOG entry of the run that wrote its result
        module_for(self.fam)

    # ---------------------------------------------------------------- helpers
    def _new_chains(self, rcs, registry=None):
        from taskchain import Chain, MultiChain

        self.nbuilt += 1
        configs = [build_config(self.fam, rc, self.base, self.work / f'cfg{os.getpid()}_{self.nbuilt}_{i}')
                   for i, rc in enumerate(rcs)]
        pm = not self.model.name_mode
        if registry is not None:
            return None, [Chain(configs[0], shared_tasks=registry, parameter_mode=pm)]
        if len(rcs) == 1 and not self.opts.get('always_multi'):
            return None, [Chain(configs[0], parameter_mode=pm)]
        mc = MultiChain(configs, parameter_mode=pm)
        return mc, [mc[c.name] for c in configs]

    def task(self, chain, node):
        t = chain.tasks.get(node)
        if t is None:
            t = chain[node]  # alias names resolve through the chain's lookup
        return t

    def paths(self):
        """location of every computation, asked from reference chains built for that purpose only"""
        if self._paths is None:
            self._paths = {}
            for rc in self.model.rcs:
                try:
                    _, (ch,) = self._new_chains([rc])
                except Exception:  # noqa  (reported by the step that builds this configuration)
                    continue
                for node in self.model.res[rc]:
                    d = self.model.did[(rc, node)]
                    t = self.task(ch, node)
                    self._paths.setdefault(d, set()).add(str(t.data_path) if t.data_path is not None else None)
        return self._paths

    # ---------------------------------------------------------------- actions
    def do(self, act):
        """Perform one spec action on the real objects.  Returns dict(err=..., value=...)."""
        name = act['name']
        gen.RUNLOG.clear()
        gen.CTRL['raise'] = None
        self.stepno += 1
        gen.CTRL['gen'] = self.stepno if self.opts.get('gens') else None
        self._ev0 = len(self.trace.ev) if getattr(self, 'trace', None) is not None else 0
        out = {'err': None, 'value': None}
        if name == 'AddChain':
            sl = self.slots[act['s']]
            _, (ch,) = self._new_chains([act['n']], registry=sl['registry'])
            sl['rcs'] = list(sl['rcs']) + [act['n']]
            sl['chains'].append(ch)
            for node in self.model.res[act['n']]:
                sl['objd'][id(self.task(ch, node))] = self.model.did[(act['n'], node)]
            return out
        if name == 'NewChain':
            rcs = self._pending_rcs
            if len(rcs) == 1 and not self.opts.get('always_multi'):
                reg = {}
                mc, chains = self._new_chains(rcs, registry=reg)
                objd = {id(self.task(chains[0], node)): self.model.did[(rcs[0], node)] for node in self.model.res[rcs[0]]}
                self.slots[act['s']] = dict(rcs=rcs, mc=None, chains=chains, objd=objd, registry=reg)
                return out
            mc, chains = self._new_chains(rcs)
            objd = {}
            for rc, ch in zip(rcs, chains):
                for node in self.model.res[rc]:
                    objd[id(self.task(ch, node))] = self.model.did[(rc, node)]
            self.slots[act['s']] = dict(rcs=rcs, mc=mc, chains=chains, objd=objd,
                                        registry=(mc._tasks if mc is not None else None))
            if mc is not None:
                out['tasknames'] = [sorted(ch.tasks) for ch in chains]
                out['standalone'] = [sorted(self._new_chains([rc])[1][0].tasks) for rc in rcs]
            return out
        sl = self.slots[act['s']]
        if name == 'Request':
            ch = sl['chains'][act['m'] - 1]
            t = self.task(ch, act['n'])
            if act['f']:
                # the run of computation f raises: identified by the object that is that computation in this slot
                ids = [i for i, d in sl['objd'].items() if d == act['f']]
                # how the run fails: an exception, an interrupt (BaseException) or a result of the wrong type
                mode = self.opts.get('failmode') or ('interrupt' if self.opts.get('interrupt') else 'raise')
                if mode == 'mistyped':
                    gen.CTRL['bad'] = {json.dumps({'objs': ids}): 'mistyped'}
                else:
                    gen.CTRL['raise'] = {'objs': ids}
                    gen.CTRL['raise_base'] = mode == 'interrupt'
            try:
                v = t.value
                try:
                    out['value'] = self._tree(t, v)
                except (FileNotFoundError, NotADirectoryError):
                    if t.__class__._vspec['kind'] in ('lazy', 'dir', 'continues') and not t.has_data:
                        out['value'] = 'dangling'   # a held reference to a result another chain has deleted
                    else:
                        raise
            except (gen.InjectedFailure, gen.InjectedInterrupt):
                out['err'] = 'injected'
            except ValueError as e:
                if act['f'] and gen.CTRL.get('bad') and 'Invalid result data type' in str(e):
                    out['err'] = 'injected'
                else:
                    raise
            finally:
                gen.CTRL['raise'] = None
                gen.CTRL['raise_base'] = False
                gen.CTRL['bad'] = {}
            return out
        if name == 'Force':
            ch = sl['chains'][act['m'] - 1]
            self.task(ch, act['n']).force(delete_data=act['del'])
            return out
        if name == 'Reset':
            ch = sl['chains'][act['m'] - 1]
            self.task(ch, act['n']).reset_data()
            return out
        if name == 'ChainForce':
            ch = sl['chains'][act['m'] - 1]
            names = sorted(act['T'])
            arg = names[0] if len(names) == 1 and self.opts.get('str_force') else self._force_arg(names, ch)
            ch.force(arg, recompute=act['rec'], delete_data=act['del'])
            return out
        if name == 'MultiForce':
            if sl['mc'] is not None and len(sl['mc'].chains) == len(sl['chains']):
                sl['mc'].force(self._force_arg(sorted(act['T']), None), recompute=act['rec'], delete_data=act['del'])
            else:   # chains built one after the other on a shared registry: what MultiChain.force does, by hand
                for ch in sl['chains']:
                    ch.force(sorted(act['T']), recompute=act['rec'], delete_data=act['del'])
            return out
        if name == 'MultiForceObj':
            objs = [self.task(sl['chains'][0], n) for n in sorted(act['T'])]
            if sl['mc'] is not None and len(sl['mc'].chains) == len(sl['chains']):
                sl['mc'].force(objs if len(objs) > 1 or self.stepno % 2 else objs[0], recompute=act['rec'], delete_data=act['del'])
            else:
                for ch in sl['chains']:
                    ch.force(objs, recompute=act['rec'], delete_data=act['del'])
            return out
        if name == 'Inspect':
            for ch in sl['chains']:
                _ = ch.tasks_df
                _ = str(ch)
                _ = repr(ch)
                _ = ch._repr_markdown_()
                ch.create_readable_filenames()
                for t in set(ch.tasks.values()):
                    _ = t.has_data, t.data_path, t.run_info, t.log, t.is_forced, repr(t), t._repr_markdown_()
                    _ = t.name_for_persistence
            return out
        raise ValueError(name)

    def _force_arg(self, names, chain):
        """the forms the `tasks` argument of force may take: a list, a one-shot iterable, a tuple, Task objects"""
        form = (self.stepno + len(names)) % 4
        if form == 1:
            return (n for n in names)
        if form == 2:
            return tuple(names)
        if form == 3 and chain is not None:
            return [chain[n] for n in names]
        return list(names)

    def _tree(self, task, value):
        kind = task.__class__._vspec['kind']
        return strip_gen(gen.decode(kind, value))

    # ---------------------------------------------------------------- projection + comparison
    def compare(self, act, exp, out):
        """[(category, text)] mismatches between the real state after `act` and the expected state."""
        mm = []
        m = self.model
        # -- error / returned value
        if bool(out['err']) != bool(exp['lasterr']):
            mm.append(('error', f"call {'raised' if out['err'] else 'succeeded'} but the spec says "
                                f"{'raises' if exp['lasterr'] else 'succeeds'}"))
        if act['name'] == 'Request' and not exp['lasterr'] and not out['err']:
            sl = self.slots[act['s']]
            d = m.did[(sl['rcs'][act['m'] - 1], act['n'])]
            if out['value'] != m.ref(d) and not (out['value'] == 'dangling' and exp['disk'][m.keyof[d] - 1] == 0):
                mm.append(('value', f"request of {act['n']} in {sl['rcs'][act['m'] - 1]} returned {out['value']!r}, "
                                    f"reference value is {m.ref(d)!r}"))
        if out.get('tasknames') and out['tasknames'] != out['standalone']:
            mm.append(('share', f"member chains have tasks {out['tasknames']}, the standalone chains {out['standalone']}"))
        # -- runs of this call
        known = {}
        for sl in self.slots.values():
            known.update(sl['objd'])
        real_runs = []
        for e in gen.RUNLOG:
            if e['obj'] not in known:
                mm.append(('runs', f"run of an object outside every live chain: {e['fullname']}"))
            else:
                real_runs.append(known[e['obj']])
        exp_runs = list(exp['lastruns'])
        if self.opts.get('gens'):
            for dd in (exp_runs[:-1] if exp['lasterr'] else exp_runs):
                self.genof[dd] = self.stepno
        unordered = act['name'] in ('ChainForce', 'MultiForce', 'MultiForceObj')
        if (sorted(real_runs) != sorted(exp_runs)) if unordered else (real_runs != exp_runs):
            mm.append(('runs', f"run invocations {[m.slug(d) + '#' + str(d) for d in real_runs]} but the spec "
                               f"requires {[m.slug(d) + '#' + str(d) for d in exp_runs]} after {act['name']}"))
        # -- objects: held values, forced flags, has_data, sharing
        for s, sl in self.slots.items():
            es = exp['slots'][str(s)] if isinstance(exp['slots'], dict) else exp['slots'][s - 1]
            seen = {}
            for rc, ch in zip(sl['rcs'], sl['chains']):
                for node in m.res[rc]:
                    d = m.did[(rc, node)]
                    t = self.task(ch, node)
                    kind = m.kind[m.res[rc][node]['slug']]
                    data = getattr(t, '_data', None)
                    held_real = data is not None and getattr(data, '_value', None) is not None
                    held_exp = es['held'][d - 1] != 0
                    # values of these kinds are REFERENCES to storage (a directory path, a reader of the stored file):
                    # once another chain has deleted the result they cannot be followed - not a foreign value
                    dangling = kind in ('lazy', 'dir', 'continues') and exp['disk'][m.keyof[d] - 1] == 0
                    if held_real and not dangling:
                        try:
                            tree = self._tree(t, data.value)
                        except Exception as e:  # noqa
                            tree = f'<undecodable: {e}>'
                        if tree != m.ref(d):
                            mm.append(('value', f'{node} of {rc} holds {tree!r}, reference value is {m.ref(d)!r}'))
                    if held_real != bool(held_exp):
                        mm.append(('held', f"{node} of {rc}: held={held_real}, spec says {bool(held_exp)}"))
                        if kind == 'mem' and held_exp and not held_real and d not in es['forced']:
                            # an in-memory result has no other place than its object: the behaviour has diverged anyway,
                            # so ask for the value once and OBSERVE whether the computation is executed a second time
                            n0 = len(gen.RUNLOG)
                            try:
                                _ = t.value
                            except Exception:  # noqa
                                pass
                            if any(e['obj'] == id(t) for e in gen.RUNLOG[n0:]):
                                mm.append(('runs', f"in-memory task {node} of {rc} had run and its object had the value; after "
                                                   f"{act['name']} the object lost it and the next request executed run again"))
                    # the flag is behaviourally observable only while nothing is held (it decides load vs run)
                    if not held_real and not held_exp and bool(t.is_forced) != (d in es['forced']):
                        mm.append(('forced', f"{node} of {rc}: is_forced={t.is_forced}, spec says {d in es['forced']}"))
                    if kind != 'mem':
                        vis_exp = exp['disk'][m.keyof[d] - 1] != 0
                        if bool(t.has_data) != vis_exp:
                            mm.append(('visible', f'{node} of {rc}: has_data={t.has_data}, spec says {vis_exp}'))
                    if sl['mc'] is not None and kind != 'mem':
                        ps = self.paths().get(d, set())
                        if str(t.data_path) not in ps:
                            mm.append(('share', f'{node} of {rc} in the MultiChain is stored at {t.data_path.name}, the '
                                                f'standalone chain stores it at {sorted(Path(p).name for p in ps)}'))
                    if d in seen and seen[d] is not t:
                        mm.append(('share', f'{node} of {rc} is the same computation as another member\'s task '
                                            f'but a distinct object'))
                    for d2, t2 in seen.items():
                        if d2 != d and t2 is t:
                            mm.append(('share', f'{node} of {rc} shares its object with a different computation'))
                    seen[d] = t
        if self.opts.get('runinfo'):
            mm.extend(self._check_runinfo(act, exp, real_runs))
        # -- directory: every computation of the family
        for d, ps in self.paths().items():
            kind = m.kind[m.slug(d)]
            if kind == 'mem':
                continue
            if len(ps) != 1:
                mm.append(('visible', f'computation {d} has several locations {ps}'))
                continue
            p = Path(next(iter(ps)))
            exp_vis = exp['disk'][m.keyof[d] - 1]
            if p.exists() != (exp_vis != 0):
                mm.append(('visible', f'result of {m.slug(d)}#{d} at {p.name}: exists={p.exists()}, spec says '
                                      f'{exp_vis != 0}'))
            elif p.exists():
                try:
                    raw = _read_result(kind, p)
                    tree = strip_gen(raw)
                except Exception as e:  # noqa
                    raw, tree = None, f'<unreadable: {type(e).__name__}: {e}>'
                want = m.ref(exp_vis) if exp_vis <= m.nd else '<poisoned>'
                if self.opts.get('gens') and isinstance(raw, dict) and d in self.genof and raw.get('#gen') != self.genof[d]:
                    mm.append(('value', f'stored result of {m.slug(d)}#{d} was written by the run of call #{raw.get("#gen")}, '
                                        f'the latest run of this computation was in call #{self.genof[d]}: not replaced'))
                if tree != want:
                    mm.append(('value', f'stored result of {m.slug(d)}#{d} is {tree!r}, spec says {want!r}'))
        return mm


def _py_repr(v):
    """the persistence representation of a JSON-like parameter value (what run info must record)"""
    if isinstance(v, str):
        return "'" + v + "'"
    if isinstance(v, list):
        return '[' + ', '.join(_py_repr(x) for x in v) + ']'
    if isinstance(v, dict):
        return '{' + ', '.join(f"'{k}': {_py_repr(x)}" for k, x in sorted(v.items())) + '}'
    return repr(v)


def _runinfo_check(self, act, exp, real_runs):
    """C18: run info and log of every visible result describe the run that produced it - the latest one."""
    import yaml

    m = self.model
    mm = []
    succ = list(exp['lastruns'][:-1] if exp['lasterr'] else exp['lastruns'])
    entries = [e for e in gen.RUNLOG if not e['raised']]
    known_all = {}
    for sl in self.slots.values():
        known_all.update(sl['objd'])
    for e in gen.RUNLOG:  # the latest ATTEMPT per computation (a failed one rewrites the log, by design: "last run")
        if known_all.get(e['obj']) is not None:
            self.producer.setdefault('attempt', {})[known_all[e['obj']]] = e['seq']
    # requests that raised in this call (recorded at the observation boundary): their tasks began an attempt - the log
    # handler was attached, truncating the log - that did not finish, even if the body of run was never reached
    failed = self.producer.setdefault('failed', {})
    if getattr(self, 'trace', None) is not None:
        by_tid = {}
        for sl in self.slots.values():
            for ch in sl['chains']:
                for t in set(ch.tasks.values()):
                    k = getattr(t, '_tcverif_tid', None)
                    if k is not None and id(t) in sl['objd']:
                        by_tid[k[1]] = sl['objd'][id(t)]
        for ev in self.trace.ev[self._ev0:]:
            if ev[0] == 'DX' and ev[1] in by_tid:
                failed[by_tid[ev[1]]] = True
            elif ev[0] == 'DE' and ev[1] in by_tid and any(x[0] == 'P' and x[1] == ev[1] for x in self.trace.ev[self._ev0:]):
                failed.pop(by_tid[ev[1]], None)
    if len(entries) == len(succ):
        by_d = {}
        known = {}
        for sl in self.slots.values():
            known.update(sl['objd'])
        for e in entries:
            d = known.get(e['obj'])
            if d is not None:
                self.producer[d] = e
    for d, ps in self.paths().items():
        if m.kind[m.slug(d)] == 'mem' or len(ps) != 1:
            continue
        p = Path(next(iter(ps)))
        if not p.exists() or d not in self.producer or exp['disk'][m.keyof[d] - 1] == 0:
            continue
        e = self.producer[d]
        latest_attempt_succeeded = self.producer.get('attempt', {}).get(d, e['seq']) == e['seq']
        ext = gen.EXT.get(m.kind[m.slug(d)]) or ''
        stem = p.name[:-len(ext)] if ext and p.name.endswith(ext) else p.name     # the key (config names may hold dots)
        label = f'{m.slug(d)}#{d}'
        try:
            info = yaml.load((p.parent / f'{stem}.run_info.yaml').read_text(), yaml.Loader)      # (records may hold tuples ...)
        except Exception as ex:  # noqa
            mm.append(('runinfo', f'run info of {label} unreadable: {type(ex).__name__}: {ex}'))
            continue
        # the same record through the API, from every task object standing for this computation (Task.run_info)
        for sl in self.slots.values():
            for ch in sl['chains']:
                for t in set(ch.tasks.values()):
                    if sl['objd'].get(id(t)) == d:
                        try:
                            api = t.run_info
                        except Exception as ex:  # noqa
                            api = f'<{type(ex).__name__}: {ex}>'
                        if api != info:
                            mm.append(('runinfo', f'Task.run_info of {label} (object of {t.fullname}) returns the record of '
                                                  f"run {[x.get('run') for x in (api.get('log') or [])] if isinstance(api, dict) else api}"
                                                  f", the stored record is of run {[x.get('run') for x in (info.get('log') or [])]}"))
        want_log = [{'rec': 0, 'run': e['seq'], 'pair': (e['seq'], 'x'), 7: 'seven'}, {'rec': 1, 'run': e['seq']}]
        if info.get('log') != want_log:
            mm.append(('runinfo', f"run info of {label} has records {info.get('log')}, the run that produced the stored "
                                  f'result added {want_log}'))
        if info.get('task', {}).get('name') != m.slug(d):
            mm.append(('runinfo', f"run info of {label} names task {info.get('task')}"))
        rc, node = m.rep(d)
        vals = m.res[rc][node]['values']
        tspec = next(t for t in self.fam['tasks'] if t['slug'] == m.slug(d))
        want_params = {}
        for prm in tspec['params']:
            key = prm.get('name_in_config') or prm['name']
            if prm.get('ignore'):
                continue  # an ignored parameter may differ between the configurations sharing this result
            want_params[prm['name']] = _py_repr(vals[key] if key in vals else prm.get('default'))
        got_params = {k: v for k, v in (info.get('parameters') or {}).items() if k in want_params}
        if got_params != want_params:
            mm.append(('runinfo', f'run info of {label} records parameters {info.get("parameters")}, used were {want_params}'))
        want_inputs = {}
        for dep in m.res[rc][node]['deps']:
            dd = m.did[(rc, dep)]
            dps = self.paths().get(dd, set())
            if len(dps) == 1 and next(iter(dps)) is not None:
                dext = gen.EXT.get(m.kind[m.slug(dd)]) or ''
                dname = Path(next(iter(dps))).name
                want_inputs[dep.split('::')[-1]] = dname[:-len(dext)] if dext and dname.endswith(dext) else dname
        got_inputs = {k.split('::')[-1]: v for k, v in (info.get('input_tasks') or {}).items()}
        if m.kind and want_inputs and not m.name_mode and got_inputs != want_inputs:     # (name mode records no input keys)
            mm.append(('runinfo', f'run info of {label} records input keys {info.get("input_tasks")}, the inputs are stored '
                                  f'under {want_inputs}'))
        cfgnames = {m.res[r][n]['cfgname'] for (r, n), dv in m.did.items() if dv == d}
        got_cfg = str((info.get('config') or {}).get('name', '')).split('/')[0]
        if not m.name_mode and got_cfg not in cfgnames:
            mm.append(('runinfo', f"run info of {label} names the config {got_cfg!r}, the computation is declared by "
                                  f'{sorted(cfgnames)}'))
        namespaces = {m.res[r][n]['ns'] for (r, n), dv in m.did.items() if dv == d}
        if (info.get('config') or {}).get('namespace') not in namespaces:
            mm.append(('runinfo', f"run info of {label} names namespace {(info.get('config') or {}).get('namespace')!r}, "
                                  f'the computation is declared under {sorted(map(str, namespaces))}'))
        if not latest_attempt_succeeded or self.producer.get('failed', {}).get(d):
            continue  # the log is that of the latest (failed) attempt; the property speaks of successful runs
        try:
            raw = (p.parent / f'{stem}.log').read_bytes()
        except OSError as ex:
            mm.append(('log', f'log of {label} unreadable: {ex}'))
            continue
        text = raw.decode('utf8', 'replace')
        lines = [l.split('USER ', 1)[1].strip() for l in text.splitlines() if 'USER ' in l]
        want_lines = [f"{m.slug(d)} run#{e['seq']} m0", f"{m.slug(d)} run#{e['seq']} m1"]
        if lines != want_lines or b'\x00' in raw:
            mm.append(('log', f'log of {label} holds {lines}{" and NUL bytes" if b"\x00" in raw else ""}; the messages of the '
                              f'run that produced the stored result are {want_lines}'))
    return mm


Epoch._check_runinfo = _runinfo_check


def _child_epoch(model, base, work, opts, steps, carry):
    """Runs inside the forked child: execute steps until a Restart; returns (n_done, mismatches, samples)."""
    # the environment of this interpreter epoch: the same data directory reached by its absolute path, by a path relative
    # to the working directory, or through a symbolic link (results never depend on how the directory is spelled)
    env = ('abs', 'rel', 'link')[(opts.get('env0', 0) + len(steps)) % 3] if opts.get('envs', True) else 'abs'
    base, work = Path(base), Path(work)
    if env == 'rel':
        os.chdir(base.parent)
        base, work = Path(base.name), Path(work.name)
    elif env == 'link':
        link = base.parent / 'data_link'
        if not link.exists():
            base.mkdir(exist_ok=True)
            link.symlink_to(base, target_is_directory=True)
        base = link
    ep = Epoch(model, base, work, opts)
    done = 0
    other = None
    if opts.get('record'):
        from . import pytest_trace
        pytest_trace._install()
        pytest_trace._cur = pytest_trace._Trace('replay')
        ep.trace = pytest_trace._cur
    for act, exp in steps:
        if act['name'] == 'Restart':
            done += 1
            break
        if act['name'] == 'NewChain':
            es = exp['slots'][str(act['s'])] if isinstance(exp['slots'], dict) else exp['slots'][act['s'] - 1]
            ep._pending_rcs = list(es['rcs'])
        try:
            out = ep.do(act)
            mm = ep.compare(act, exp, out)
        except Exception as e:  # the library raised where the spec allows no error
            tb = traceback.format_exc()
            cat = 'construct' if act['name'] == 'NewChain' else 'error'
            mm = [(cat, f"{act['name']} raised {type(e).__name__}: {e}"), ('trace', tb[-1500:])]
        done += 1
        rel = opts.get('relevant')
        if mm and rel is not None and not any(c in rel for c, _ in mm):
            # a divergence in an observation that belongs to another property: remember it, keep following the
            # behaviour - the divergence this property cares about may show a step later
            other = other or mm
            continue
        if mm:
            return done, mm, (ep.producer, ep.genof, ep.stepno, getattr(ep, 'trace', None) and ep.trace.ev)
    return done, (other or []), (ep.producer, ep.genof, ep.stepno, getattr(ep, 'trace', None) and ep.trace.ev)


def _final_check(model, base, work, final_state):
    """A fresh interpreter builds every configuration and requests every task (C01 last clause)."""
    ep = Epoch(model, Path(base), Path(work), {})
    mm = []
    for rc in model.rcs:
        try:
            _, (ch,) = ep._new_chains([rc])
            objd = {id(ep.task(ch, node)): model.did[(rc, node)] for node in model.res[rc]}
        except Exception as e:  # noqa  the library fails on a configuration every standalone chain must build
            mm.append(('construct', f'fresh process: building the chain of {rc} failed: {type(e).__name__}: {e}'))
            continue
        for node in model.res[rc]:
            d = model.did[(rc, node)]
            gen.RUNLOG.clear()
            t = ep.task(ch, node)
            try:
                tree = ep._tree(t, t.value)
            except Exception as e:  # noqa
                mm.append(('value', f'fresh process: {node} of {rc} raised {type(e).__name__}: {e}'))
                continue
            if tree != model.ref(d):
                mm.append(('value', f'fresh process: {node} of {rc} returned {tree!r}, reference {model.ref(d)!r}'))
            for e in gen.RUNLOG:
                dd = objd.get(e['obj'])
                if dd is not None and model.kind[model.slug(dd)] != 'mem' and final_state['disk'][model.keyof[dd] - 1] != 0:
                    mm.append(('runs', f'fresh process: {model.slug(dd)}#{dd} was run again although its result '
                                       f'was visible'))
    return mm


def replay(model: Model, behaviour, opts=None, final=True, tag='b'):
    """Replay one behaviour.  Returns dict(mismatches=[(cat, text)], at=step index, steps=n)."""
    opts = opts or {}
    root = scratch(f'replay-{os.getpid()}-{tag}')
    base, work = root / 'data', root / 'work'
    base.mkdir(exist_ok=True)
    other_mm = None
    recorded = []
    try:
        i = 0
        while i < len(behaviour):
            try:
                done, mm, (producer, genof, stepno, events) = run_forked(_child_epoch, model, str(base), str(work), opts, behaviour[i:], None)
                if events:
                    recorded.append(events)
                opts = dict(opts, _genof=genof, _stepno=stepno)
                if opts.get('runinfo'):
                    opts = dict(opts, _producer={d: ({k: v for k, v in e.items() if k in ('seq', 'slug')} if d not in ('attempt', 'failed') else e)
                                                 for d, e in producer.items()})
            except ChildCrashed as e:
                return dict(mismatches=[('error', f'interpreter died: {e}')], at=i, steps=len(behaviour))
            rel = opts.get('relevant')
            if mm and rel is not None and not any(c in rel for c, _ in mm):
                other_mm = other_mm or (mm, i + done - 1)
                mm = []
            if mm:
                return dict(mismatches=mm, at=i + done - 1, steps=len(behaviour), events=recorded)
            i += done
        if final and behaviour:
            mm = run_forked(_final_check, model, str(base), str(work), behaviour[-1][1])
            if mm:
                return dict(mismatches=mm, at=len(behaviour), steps=len(behaviour))
        if other_mm:
            return dict(mismatches=other_mm[0], at=other_mm[1], steps=len(behaviour), events=recorded)
        return dict(mismatches=[], at=None, steps=len(behaviour), events=recorded)
    finally:
        shutil.rmtree(root, ignore_errors=True)
