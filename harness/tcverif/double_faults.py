"""C05, fault SEQUENCES: the process dies while a value is computed and stored (first level, checks/c05.py), and the
process that comes next dies too, while it recovers.  The recovery protocols are recorded from the real code on the
directories the first crash left behind and handed to StoreSteps.tla as further protocols (with the abstract state of
the first crash as their precondition); TLC explores every crash point in them, the same double crashes are produced
for real, and a third process must find nothing or the complete value and be able to recompute."""
import json
import os
import shutil
from pathlib import Path

from . import faults
from .core import MachineryError
from .procs import ChildCrashed, pmap, run_forked
from .tlc import account, run_tlc


def _apply(st, x):
    """Apply of StoreSteps.tla"""
    st = dict(st)
    op, o = x['op'], x['o']
    if op == 'WB':
        st[o] = 'partial'
    elif op in ('WE', 'MK'):
        st[o] = 'new' if x['last'] else 'partial'
    elif op == 'MV':
        st[x['to']], st[o] = st[o], 'absent'
    elif op == 'RM':
        st[o] = 'absent'
    elif op == 'RB':
        st[o] = 'absent' if st[o] == 'absent' else 'partial'
    elif op == 'RE':
        st[o] = 'absent'
    return st


def state_before(kind, phase, rec, aops, k):
    """abstract state of the task directory when the process dies before real operation k"""
    st = {'final': 'absent' if phase == 'first' else 'old'}
    for o in ('tmp', 'err', 'old'):
        st[o] = 'partial' if rec['init'].get(o) else 'absent'
    for x in aops:
        if x['real'] >= k:
            break
        st = _apply(st, x)
    return st


def _first_crash(job):
    """crash attempt 1 at k, then record what the recovering process does (no second fault yet)"""
    name, kind, phase, pre, work, k = job
    import hashlib
    d = faults.fresh(pre, work, f'dbl_{os.getpid()}_{hashlib.md5(name.encode()).hexdigest()[:8]}_{k}')
    try:
        try:
            run_forked(faults.attempt, kind, phase, None, str(d), k)
            return job, None     # the first process did not die at k (k beyond its last operation)
        except ChildCrashed:
            pass
        keep = Path(str(d) + '_state')
        shutil.copytree(d, keep, symlinks=True)
        out = run_forked(faults.attempt, kind, 'first', None, str(d))
        return job, {'state': str(keep), 'ops': out['ops'], 'final': out['final'], 'exc': out['exc'], 'init': out['init']}
    finally:
        shutil.rmtree(d, ignore_errors=True)


def _second_crash(job):
    name, kind, state_dir, k, j = job
    d = Path(f'{state_dir}_{os.getpid()}_{j}')
    shutil.copytree(state_dir, d, symlinks=True)
    try:
        try:
            run_forked(faults.attempt, kind, 'first', None, str(d), j)
        except ChildCrashed:
            pass
        later = run_forked(faults.later_chain, kind, str(d))
        return job, later
    finally:
        shutil.rmtree(d, ignore_errors=True)


def run(ctx, recs, work, findings, judge, sample_every=1):
    """recs: the first-level records of checks/c05.py ({name: (kind, phase, fault, pre, rec, aops)})"""
    firsts = []
    for name, (kind, phase, fault, pre, rec, aops) in recs.items():
        if fault is not None:
            continue
        points = sorted({x['real'] for x in aops} | {x['real'] + 1 for x in aops})
        for i, k in enumerate(points):
            if i % sample_every == 0:
                firsts.append((name, kind, phase, pre, work, k))
    out1 = pmap(_first_crash, firsts)
    protos, seconds = [], []
    states = []
    try:
        for job, r in out1:
            name, kind, phase, pre, _, k = job
            if r is None:
                continue
            states.append(r['state'])
            rec, aops = recs[name][4], recs[name][5]
            st = state_before(kind, phase, rec, aops, k)
            if st['final'] == 'partial':
                continue      # already a first-level violation (reported there)
            if r['exc'] is not None:
                findings.append((f'{kind}:{phase}:double:recovery-raises', f'{name}: process dies before file operation #{k}; '
                                                                            f"the next process cannot get the value: {r['exc']}"))
                continue
            raops = faults.abstract(r['ops'], r['final'])
            pname = f'{name}@{k}/recovery'
            protos.append(faults.tla_proto(pname, kind, st['final'], 'recover', raops,
                                           {o: st[o] for o in ('tmp', 'err', 'old')}))
            for j in sorted({x['real'] for x in raops} | {x['real'] + 1 for x in raops}):
                seconds.append((pname, kind, r['state'], k, j))
        if not protos:
            raise MachineryError('no recovery protocol could be recorded for the fault sequences')
        mod = ('---- MODULE MCSteps2 ----\nEXTENDS StoreSteps\nc_Protos == <<\n  ' + ',\n  '.join(protos) + '>>\n====\n')
        cfg = ('CONSTANTS\n  Protos <- c_Protos\n  Emit = TRUE\nINIT Init\nNEXT Next\nINVARIANT VisibleIsComplete\n'
               'INVARIANT Recoverable\nINVARIANT EmitBad\n')
        res = run_tlc('MCSteps2', cfg_text=cfg, extra_files={'MCSteps2.tla': mod}, workers=4, timeout=1800, expect_ok=False)
        if (not res.ok and not res.invariant_violated) or 'TLC threw' in res.stdout:
            raise MachineryError('TLC failed on the recovery protocols:\n' + res.stdout[-2000:])
        account(ctx, res, f'StoreSteps over {len(protos)} RECOVERY protocols recorded on the directories left by a first crash: '
                          f'every second crash point')
        if res.invariant_violated:
            findings.append((f'design:double:{res.invariant_violated}', f'TLC: {res.invariant_violated} is violated by a '
                                                                        f'recovery protocol'))
        out2 = pmap(_second_crash, seconds)
        ctx.traces += len(firsts) + len(seconds)
        ctx.extra['fault_sequences_replayed'] = len(seconds)
        ctx.extra['recovery_protocols_recorded'] = len(protos)
        for job, later in out2:
            pname, kind, _, k, j = job
            ctx.case(json.dumps(['double', pname, j]), nontrivial=True)
            label = f'{pname}: the next process dies before ITS file operation #{j}'
            for cls, text in judge(kind, later, label):
                findings.append((f'{kind}:double:{cls}', text))
    finally:
        for s in states:
            shutil.rmtree(s, ignore_errors=True)
