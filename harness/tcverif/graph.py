"""State graphs exported by TLC (one JSON edge per transition) and behaviours drawn from them."""
import json
from collections import defaultdict, deque


def skey(state, drop=()):
    return json.dumps({k: v for k, v in state.items() if k not in drop}, sort_keys=True)


class Graph:
    """Quotient graph: states identified modulo the `drop` fields (step counters, history variables)."""

    def __init__(self, edges, inits, drop=('steps',)):
        self.drop = drop
        self.out = defaultdict(list)  # key -> [(edge_index)]
        self.edges = []  # (from_key, act, to_key, to_state)
        seen = set()
        self.inits = []
        for s in inits:
            k = skey(s, drop)
            if k not in [i[0] for i in self.inits]:
                self.inits.append((k, s))
        for e in edges:
            fk, tk = skey(e['from'], drop), skey(e['to'], drop)
            ak = json.dumps(e['act'], sort_keys=True)
            if (fk, ak, tk) in seen:
                continue
            seen.add((fk, ak, tk))
            self.out[fk].append(len(self.edges))
            self.edges.append((fk, e['act'], tk, e['to']))

    def n_states(self):
        ks = {i[0] for i in self.inits}
        for e in self.edges:
            ks.add(e[0])
            ks.add(e[2])
        return len(ks)

    def _bfs_to_uncovered(self, start, covered):
        """Shortest edge path from start to (and through) some uncovered edge."""
        prev = {start: None}
        q = deque([start])
        while q:
            k = q.popleft()
            for ei in self.out.get(k, ()):
                if ei not in covered:
                    path = [ei]
                    while prev[k] is not None:
                        pk, pe = prev[k]
                        path.append(pe)
                        k = pk
                    return path[::-1]
                tk = self.edges[ei][2]
                if tk not in prev:
                    prev[tk] = (k, ei)
                    q.append(tk)
        return None

    def cover(self, maxlen=12, rng=None, limit=None):
        """Paths (lists of edge indices) from an initial state covering every reachable edge at least once.

        One breadth-first tree gives every state its shortest prefix from an initial state; every edge not yet
        covered then starts a path  prefix(from) + edge  that is extended greedily through further uncovered
        edges.  Linear in the size of the graph (the first version searched anew for every path: quadratic)."""
        prefix = {}
        q = deque()
        for ik, _ in self.inits:
            if ik not in prefix:
                prefix[ik] = []
                q.append(ik)
        while q:
            k = q.popleft()
            for ei in self.out.get(k, ()):
                tk = self.edges[ei][2]
                if tk not in prefix and len(prefix[k]) + 1 < maxlen:
                    prefix[tk] = prefix[k] + [ei]
                    q.append(tk)
        covered = set()
        paths = []
        order = list(range(len(self.edges)))
        # deepest edges first: their prefixes cover the shallow ones on the way
        order.sort(key=lambda ei: -len(prefix.get(self.edges[ei][0], [])))
        for ei in order:
            if ei in covered or self.edges[ei][0] not in prefix:
                continue
            path = prefix[self.edges[ei][0]] + [ei]
            cur = self.edges[ei][2]
            while len(path) < maxlen:
                cand = [e for e in self.out.get(cur, ()) if e not in covered and e not in path]
                if not cand:
                    break
                nxt = rng.choice(cand) if rng else cand[0]
                path.append(nxt)
                cur = self.edges[nxt][2]
            covered.update(path)
            paths.append(path)
            if limit and len(paths) >= limit:
                break
        return paths, len(covered)

    def walk(self, rng, length, weight=None):
        k, _ = rng.choice(self.inits)
        path = []
        for _ in range(length):
            outs = self.out.get(k, ())
            if not outs:
                break
            if weight:
                ws = [weight(self.edges[ei][1]) for ei in outs]
                ei = rng.choices(outs, ws)[0]
            else:
                ei = rng.choice(outs)
            path.append(ei)
            k = self.edges[ei][2]
        return path

    def behaviour(self, path):
        """[(act, to_state)] for a path, plus the initial state."""
        if not path:
            return None, []
        fk = self.edges[path[0]][0]
        init = next((s for k, s in self.inits if k == fk), None)
        return init, [(self.edges[ei][1], self.edges[ei][3]) for ei in path]
