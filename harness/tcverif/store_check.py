"""Driver shared by the Store properties (C01, C04, C07, C13): TLC on StoreAtomic, edge export, replay."""
import json
import time

from .core import MachineryError
from .families import FAMILIES, Model
from .graph import Graph
from .procs import pmap
from .store_replay import replay
from .tlc import account, run_tlc

INVARIANTS = ['TypeOK', 'NoForeignValue', 'StoreSound', 'HeldOnlyOwn', 'RunsJustified', 'AtMostOnce']
PROPERTIES = ['OnlyOnDemand', 'RunOnlyIfNeeded', 'AddChainKeeps', 'NoDoubleRun', 'ForceExact', 'MultiForceAll', 'ForcedRuns', 'ForcedExactlyOnce', 'UnforcedLoads', 'RequestDelivers',
              'FailLeavesNothing']


def mc_module(model: Model, name, force_sets='small', slots=2):
    c = model.constants(force_sets)
    c['Slots'] = f'1..{slots}'
    body = '\n'.join(f'c_{k} == {v}' for k, v in c.items())
    text = f'---- MODULE {name} ----\nEXTENDS StoreAtomic\n{body}\n====\n'
    subst = '\n'.join(f'  {k} <- c_{k}' for k in c)
    return text, subst


def cfg(subst, max_steps, gen=False, force=True, fail=True, restart=True, count=False, view=True, invariants=None,
        props=None):
    b = lambda x: 'TRUE' if x else 'FALSE'  # noqa: E731
    lines = ['CONSTANTS', subst, f'  MaxSteps = {max_steps}', f'  EnableForce = {b(force)}', f'  EnableFail = {b(fail)}',
             f'  EnableRestart = {b(restart)}', f'  Count = {b(count)}']
    if gen:
        lines += ['INIT InitGen', 'NEXT NextGen']
    else:
        lines += ['INIT Init', 'NEXT Next']
        if view:
            lines += ['VIEW View']
    for i in (INVARIANTS if invariants is None else invariants):
        lines.append(f'INVARIANT {i}')
    for p in (PROPERTIES if props is None else props):
        lines.append(f'PROPERTY {p}')
    return '\n'.join(lines) + '\n'


def check_model(ctx, model, label, max_steps, slots=2, force_sets='small', **flags):
    """Exhaustive TLC run with all invariants and action properties (the design-level check)."""
    name = f'MCStore_{label}'
    text, subst = mc_module(model, name, force_sets, slots)
    res = run_tlc(name, cfg_text=cfg(subst, max_steps, **flags), extra_files={f'{name}.tla': text}, coverage=True,
                  timeout=3000)
    dead_ok = set()
    if not any(len(l) == 2 and [l[0]] in model.lists for l in model.lists):
        dead_ok |= {'AddChain'}
    if not flags.get('force', True):
        dead_ok |= {'Force', 'ChainForce', 'Reset', 'MultiForceObj'}
    if not flags.get('restart', True):
        dead_ok |= {'Restart'}
    account(ctx, res, f'StoreAtomic/{label} exhaustive MaxSteps={max_steps} slots={slots}', dead_ok=dead_ok)
    return res


def export_graph(ctx, model, label, max_steps, slots=1, force_sets='small', **flags):
    """Generation run: every transition printed as one JSON edge; returns the quotient graph."""
    name = f'MCStoreGen_{label}'
    text, subst = mc_module(model, name, force_sets, slots)
    res = run_tlc(name, cfg_text=cfg(subst, max_steps, gen=True, invariants=[], props=[], **flags),
                  extra_files={f'{name}.tla': text}, workers=8, timeout=3000)
    edges = res.by_tag('E')
    inits = [e['st'] for e in res.by_tag('I')]
    if not edges or not inits:
        raise MachineryError(f'no edges exported for {label}')
    account(ctx, res, f'StoreAtomic/{label} edge export MaxSteps={max_steps} slots={slots}')
    g = Graph(edges, inits, drop=('steps', 'lastruns', 'lasterr'))
    # the quotient drops lastruns/lasterr from state identity, but each edge keeps its full target state
    return g


_MODEL = {}


def _replay_job(job):
    key, idx, beh, opts = job
    r = replay(_MODEL[key], beh, opts=opts, tag=f'{idx}')
    return idx, r


def replay_paths(ctx, model, graph, paths, opts=None, label=''):
    """Replay behaviours on the real library in a fork pool; returns [(path index, result)] with mismatches."""
    key = label
    _MODEL[key] = model
    jobs = []
    for i, p in enumerate(paths):
        init, beh = graph.behaviour(p)
        if beh:
            jobs.append((key, i, beh, dict(opts or {}, failmode=('raise', 'interrupt', 'mistyped')[i % 3], env0=i // 3)))
    t0 = time.time()
    out = pmap(_replay_job, jobs)
    ctx.traces += len(jobs)
    ctx.count('replayed_steps', sum(len(j[2]) for j in jobs))
    ctx.count('replay_wall_s', round(time.time() - t0, 1))
    bad = [(i, r) for i, r in out if r['mismatches']]
    return jobs, bad


def describe(model, beh, upto=None):
    out = []
    for act, _ in beh[: (upto + 1) if upto is not None else None]:
        n = act['name']
        if n == 'Request':
            out.append(f"value(s{act['s']}.m{act['m']}.{act['n']}" + (f", run of #{act['f']} raises)" if act['f'] else ')'))
        elif n == 'NewChain':
            out.append(f"s{act['s']}=Chain(..)")
        elif n == 'AddChain':
            out.append(f"s{act['s']}+=Chain({act['n']}, shared_tasks=registry of s{act['s']})")
        elif n == 'Force':
            out.append(f"force(s{act['s']}.m{act['m']}.{act['n']}, delete={act['del']})")
        elif n == 'Reset':
            out.append(f"reset_data(s{act['s']}.m{act['m']}.{act['n']})")
        elif n in ('ChainForce', 'MultiForce', 'MultiForceObj'):
            out.append(f"{n}(s{act['s']}.m{act['m']}, {sorted(act['T'])}, recompute={act['rec']}, delete={act['del']})")
        else:
            out.append(n)
    return out


def report_mismatches(ctx, model, jobs, bad, relevant, fam_name, other_note=True):
    """Turn replay mismatches into VIOLATION reports for the categories relevant to the property."""
    byidx = {j[1]: j for j in jobs}
    for idx, r in bad:
        beh = byidx[idx][2]
        cats = [c for c, _ in r['mismatches'] if c != 'trace']
        rel = [(c, t) for c, t in r['mismatches'] if c in relevant]
        acts = describe(model, beh, r['at'])
        # fill in the configuration lists of NewChain steps for readability
        if not rel:
            if other_note:
                ctx.note(f'divergence of another property\'s category {sorted(set(cats))} seen in family {fam_name} '
                         f'(not counted here): {r["mismatches"][0][1][:160]}')
            continue
        cat, text = rel[0]
        last = beh[min(r['at'], len(beh) - 1)][0]
        sig = f"{fam_name}:{cat}:{last['name']}:{_normalise(text)}"
        ctx.report(sig, f'[{fam_name}] {text}  after: {" ; ".join(acts[-6:])}',
                   detail={'family': fam_name, 'behaviour': [a for a, _ in beh], 'failing_step': r['at'],
                           'mismatches': r['mismatches'], 'steps': [[a, e] for a, e in beh],
                           'model_rcs': model.rcs, 'model_lists': model.lists, 'name_mode': model.name_mode,
                           'opts': {k: v for k, v in (byidx[idx][3] or {}).items() if not k.startswith('_') and k != 'relevant'},
                           'expected_state': beh[min(r['at'], len(beh) - 1)][1]})


def _normalise(text):
    import re

    text = re.sub(r'[0-9a-f]{32}', '<key>', text)
    text = re.sub(r'/tmp/[^ ]*', '<path>', text)
    return text[:140]


def nontrivial(beh):
    """A behaviour is non-trivial when it runs something and afterwards re-requests, forces, fails or restarts."""
    names = [a['name'] for a, _ in beh]
    ran = any(e['lastruns'] for _, e in beh)
    return ran and len(set(names)) >= 2


def _enc(x, nd):
    return 0 if not x else (nd + 1 if x[0] == 0 else x[0])


def proj_from_raw(st, nd):
    """The specification's Proj, computed from a raw TLC state (trace files of -simulate)."""
    return {'disk': [_enc(x, nd) for x in st['disk']],
            'slots': [{'rcs': sl['rcs'], 'held': [_enc(x, nd) for x in sl['held']], 'forced': sorted(sl['forced'])}
                      for sl in st['slot']],
            'lastruns': st['lastruns'], 'lasterr': st['lasterr'], 'steps': st['steps']}


def simulate(ctx, model, label, num, depth, slots=2, force_sets='small', **flags):
    """Random behaviours of a larger instance from `tlc -simulate`, read back from TLC's trace files."""
    from .core import scratch
    from .tlaparse import parse_trace_file

    name = f'MCStoreSim_{label}'
    text, subst = mc_module(model, name, force_sets, slots)
    out = scratch(f'sim-{label}-{ctx.prop}')
    for f in out.glob('tr_*'):
        f.unlink()
    res = run_tlc(name, cfg_text=cfg(subst, depth, invariants=[], props=[], view=False, **flags),
                  extra_files={f'{name}.tla': text}, workers=1, timeout=1200,
                  simulate=f'file={out}/tr,num={num}', depth=depth + 1, seed=ctx.seed + 1)
    behs = []
    for f in sorted(out.glob('tr_*')):
        states = parse_trace_file(f.read_text())
        beh = [(st['act'], proj_from_raw(st, model.nd)) for _, st in states[1:]]
        if beh:
            behs.append(beh)
        f.unlink()
    if not behs:
        raise MachineryError(f'simulation produced no behaviour for {label}:\n{res.stdout[-1500:]}')
    n = sum(len(b) for b in behs)
    ctx.transitions += n
    ctx.tlc_runs.append({'run': f'StoreAtomic/{label} simulate num={num} depth={depth} slots={slots}',
                         'behaviours': len(behs), 'transitions': n, 'wall_s': round(res.wall, 1)})
    return behs


def _replay_beh_job(job):
    key, idx, beh, opts = job
    return idx, replay(_MODEL[key], beh, opts=opts, tag=f'{idx}')


def replay_behaviours(ctx, model, behs, opts=None, label=''):
    _MODEL[label] = model
    jobs = [(label, i, b, dict(opts or {}, failmode=('raise', 'interrupt', 'mistyped')[i % 3], env0=i // 3)) for i, b in enumerate(behs) if b]
    t0 = time.time()
    out = pmap(_replay_beh_job, jobs)
    ctx.traces += len(jobs)
    ctx.count('replayed_steps', sum(len(j[2]) for j in jobs))
    ctx.count('replay_wall_s', round(time.time() - t0, 1))
    if (opts or {}).get('record'):
        ctx.extra.setdefault('_recorded', []).extend(ev for _, r in out for ev in r.get('events', []))
    return jobs, [(i, r) for i, r in out if r['mismatches']]


def run_families(ctx, plans, relevant):
    """plans: [dict(family, check=dict(steps, slots, rcs, lists, flags...), gen=dict(...), sim=dict(num, depth, ...),
                   walks, walk_len, cover_limit, opts)]"""
    for plan in plans:
        fam_name = plan['family']
        fam = FAMILIES[fam_name]
        for i, ck in enumerate(plan.get('checks', [])):
            ck = dict(ck)
            model = Model(fam, rcs=ck.pop('rcs', None), lists=ck.pop('lists', None), name_mode=plan.get('name_mode', False))
            check_model(ctx, model, f'{fam_name}{i}', ck.pop('steps'), slots=ck.pop('slots', 2),
                        force_sets=ck.pop('force_sets', 'small'), **ck)
        behs = []
        gen = dict(plan.get('gen') or {})
        if gen:
            model = Model(fam, rcs=gen.pop('rcs', None), lists=gen.pop('lists', None), name_mode=plan.get('name_mode', False))
            steps = gen.pop('steps')
            g = export_graph(ctx, model, fam_name, steps, slots=gen.pop('slots', 1),
                             force_sets=gen.pop('force_sets', 'small'), **gen)
            cover, ncov = g.cover(maxlen=max(steps + 4, 10), rng=ctx.rng, limit=plan.get('cover_limit', 2500))   # (a full edge cover of the larger thorough instances is hours of replay)
            walks = [g.walk(ctx.rng, plan.get('walk_len', 12)) for _ in range(plan.get('walks', 0))]
            ctx.count('graph_edges', len(g.edges))
            ctx.count('graph_states', g.n_states())
            ctx.count('edges_covered_by_replay', ncov)
            ctx.extra.setdefault('edge_cover_complete', {})[fam_name] = (ncov == len(g.edges))
            behs = [g.behaviour(p)[1] for p in cover + walks]
            jobs, bad = replay_behaviours(ctx, model, behs, opts=dict(plan.get('opts') or {}, relevant=sorted(relevant)),
                                          label=fam_name + '/graph')
            _account_cases(ctx, model, jobs, fam_name)
            report_mismatches(ctx, model, jobs, bad, relevant, fam_name)
        sim = dict(plan.get('sim') or {})
        if sim:
            model = Model(fam, rcs=sim.pop('rcs', None), lists=sim.pop('lists', None), name_mode=plan.get('name_mode', False))
            sb = simulate(ctx, model, fam_name, sim.pop('num'), sim.pop('depth'), slots=sim.pop('slots', 2), **sim)
            jobs, bad = replay_behaviours(ctx, model, sb, opts=dict(plan.get('opts') or {}, relevant=sorted(relevant)),
                                          label=fam_name + '/sim')
            _account_cases(ctx, model, jobs, fam_name)
            report_mismatches(ctx, model, jobs, bad, relevant, fam_name)


def _account_cases(ctx, model, jobs, fam_name):
    for j in jobs:
        ctx.case(json.dumps([a for a, _ in j[2]], sort_keys=True), nontrivial=nontrivial(j[2]))
    if jobs:
        ctx.sample({'family': fam_name, 'behaviour': describe(model, jobs[0][2])})
        ctx.sample({'family': fam_name, 'behaviour': describe(model, jobs[-1][2])})


def replay_file(ctx, detail, relevant):
    """Re-execute the behaviour stored in a replay file (it carries the expected state after every step)."""
    fam = FAMILIES[detail['family']]
    model = Model(fam, rcs=detail.get('model_rcs'), lists=detail.get('model_lists'), name_mode=detail.get('name_mode', False))
    beh = [(a, e) for a, e in detail['steps']]
    r = replay(model, beh, opts=dict(detail.get('opts') or {}, relevant=sorted(relevant)) if relevant else {}, tag='replayfile')
    ctx.traces += 1
    ctx.case(json.dumps([a for a, _ in beh], sort_keys=True))
    ctx.sample({'behaviour': describe(model, beh)})
    if r['mismatches']:
        report_mismatches(ctx, model, [('f', 0, beh, detail.get('opts') or {})], [(0, r)],
                          relevant or {c for c, _ in r['mismatches']}, detail['family'])
    return ctx.finish()


def validate_recorded(ctx, kinds=None, cap=None):
    """code -> spec on the replays themselves: the events Task.data produced during every replayed behaviour (recorded
    by pytest_trace's observation wrappers when the plan has opts.record) are validated against StoreTrace.tla.
    kinds: the event kinds whose rejection belongs to the calling property (None = all)."""
    from . import trace_check
    rec = ctx.extra.pop('_recorded', [])
    if not rec:
        return
    traces = [{'test': f'replayed behaviour #{i}', 'events': ev} for i, ev in enumerate(rec)]
    if cap:
        traces = traces[:cap]
    n, rejected = trace_check.validate(ctx, traces, label='replayed StoreAtomic behaviours')
    ctx.extra['replay_traces_validated'] = n
    ctx.extra['replay_trace_events'] = sum(len(t['events']) for t in traces)
    shown = 0
    for test, k, ev, before, tasks in rejected:
        if kinds is not None and ev[0] not in kinds:
            ctx.count('replay_trace_rejections_belonging_to_other_properties', 1)
            continue
        shown += 1
        if shown <= 20:
            ctx.report(f'replay-trace:{ev[0]}', f'{test}: event #{k} {ev} is not a behaviour of StoreTrace; preceding {before}')


def scaled(plans, k=3):
    """the thorough tier of the Store checks: the quick plans with k times as many covering paths, random walks and
    simulated behaviours (the exhaustive TLC instances stay the ones known to finish well inside the time-outs - the
    larger instances tried earlier needed hours once Reset / MultiForceObj / the newer families had been added)"""
    out = []
    for p in plans:
        q = dict(p)
        if q.get('cover_limit'):
            q['cover_limit'] = q['cover_limit'] * k
        q['walks'] = (q.get('walks') or 0) * k
        if q.get('walk_len'):
            q['walk_len'] = q['walk_len'] + 4
        if q.get('sim'):
            q['sim'] = dict(q['sim'], num=q['sim']['num'] * k, depth=q['sim']['depth'] + 4)
        out.append(q)
    return out
