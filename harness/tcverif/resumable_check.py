"""Binding of specs/Resumable.tla (C05, last clause): TLC behaviours stepped through real ContinuesData tasks."""
import json
import os
import shutil
import sys
import types
from pathlib import Path

from . import gen
from .core import MachineryError, scratch
from .graph import Graph
from .procs import pmap
from .tlc import account, run_tlc

N = 3
MODULE = 'vgen_resumable'
CTRL = {'fail': 'no'}


class StepFailed(Exception):
    pass


def module():
    if MODULE in sys.modules:
        return sys.modules[MODULE]
    from taskchain import Task
    from taskchain.data import ContinuesData

    mod = types.ModuleType(MODULE)

    class ResTask(Task):
        class Meta:
            name = 'res'

        def run(self) -> ContinuesData:
            gen.RUNLOG.append({'slug': 'res', 'obj': id(self)})
            d = self.get_data_object()
            side = Path(self.get_config().base_dir).parent / 'finished_count.txt'
            g = (int(side.read_text()) if side.exists() else 0) + 1      # generation this work directory belongs to
            have = sorted(p.name for p in d.dir.glob('chunk*.txt'))
            if CTRL['fail'] == 'before':
                raise StepFailed('before the chunk is written')
            if len(have) < N:
                (d.dir / f'chunk{len(have)}.txt').write_text(f'gen {g} chunk {len(have)}')
                have.append(f'chunk{len(have)}.txt')
            if CTRL['fail'] == 'after':
                raise StepFailed('after the chunk is written')
            if len(have) == N:
                d.finished()
                side.write_text(str(g))
            return d
    ResTask.__module__ = MODULE
    mod.ResTask = ResTask
    sys.modules[MODULE] = mod
    return mod


def mc(steps, gen_mode):
    cfg = (f'CONSTANTS\n  N = {N}\n  Objs = {{1, 2}}\n  MaxSteps = {steps}\n  Emit = TRUE\n'
           + ('INIT InitGen\nNEXT NextGen\n' if gen_mode else
              'INIT Init\nNEXT Next\nINVARIANT TypeOK\nPROPERTY ProgressKept\nPROPERTY FinishedOnlyByFinishing\n'
              'PROPERTY LoadTouchesNothing\n'))
    return cfg


def observe(base, key):
    tmp = [p for p in (base / 'res').glob('*_tmp')]
    prog = len(list(tmp[0].glob('chunk*.txt'))) if tmp else 0
    fins = [p for p in (base / 'res').iterdir() if p.is_dir() and not p.name.endswith(('_tmp', '_old', '_error'))] if (base / 'res').exists() else []
    fin = 0
    if fins:
        files = sorted(fins[0].glob('chunk*.txt'))
        gens = {f.read_text().split()[1] for f in files}
        fin = int(gens.pop()) if len(files) == N and len(gens) == 1 else -1     # -1: a finished result that is not N chunks of one run
    return prog, fin


def replay(job):
    idx, beh = job
    from taskchain import Config

    mod = module()
    root = scratch(f'resumable-{os.getpid()}') / f'b{idx}'
    base = root / 'data'
    done = []
    label = ''
    try:
        root.mkdir(parents=True, exist_ok=True)

        def new():
            return Config(base, name='cfg', data={'tasks': [mod.ResTask]}).chain()['res']
        objs = {1: new(), 2: new()}
        for act, exp in beh:
            o = act.get('o')
            label = act['name'] + (f"({o}, fail={act['fail']})" if act['name'] == 'Request' else f"({o}{', delete' if act.get('del') else ''})")
            gen.RUNLOG.clear()
            got_kind = None
            if act['name'] == 'Request':
                CTRL['fail'] = act['fail']
                try:
                    v = objs[o].value
                    got_kind = 'work' if str(v).endswith('_tmp') else 'fin'
                    if act['fail'] != 'no':
                        return idx, ('resumable:no-failure', f"after {' ; '.join(done)}: {label} did not raise")
                except StepFailed:
                    if act['fail'] == 'no':
                        raise
                finally:
                    CTRL['fail'] = 'no'
                ran = len(gen.RUNLOG)
                if ran != (1 if act['ran'] else 0):
                    return idx, ('resumable:runs', f"after {' ; '.join(done)}: {label} executed run {ran} time(s), the specification "
                                                   f"says {1 if act['ran'] else 0} (mode {act['mode']})")
                want_kind = exp['held'][str(o)] if isinstance(exp['held'], dict) else exp['held'][o - 1]
                if act['fail'] == 'no' and got_kind != want_kind:
                    return idx, ('resumable:value', f"after {' ; '.join(done)}: {label} returned the {got_kind} directory, expected {want_kind}")
            elif act['name'] == 'Force':
                objs[o].force(delete_data=act['del'])
            elif act['name'] == 'Reset':
                objs[o].reset_data()
            elif act['name'] == 'NewObject':
                objs[o] = new()
            done.append(label)
            prog, fin = observe(base, None)
            if prog != exp['prog']:
                return idx, ('resumable:progress', f"after {' ; '.join(done)}: the work directory holds {prog} chunk(s), the "
                                                   f"specification says {exp['prog']} (kept for continuation until finished)")
            for oo, t in objs.items():      # has_data: a finished result is visible - whatever the object itself holds
                if bool(t.has_data) != (exp['fin'] != 0):
                    return idx, ('resumable:has-data', f"after {' ; '.join(done)}: object {oo} reports has_data={t.has_data}, a finished "
                                                       f"result {'exists' if exp['fin'] else 'does not exist'}")
            if fin != exp['fin']:
                return idx, ('resumable:finished', f"after {' ; '.join(done)}: the finished result is generation {fin}, the "
                                                   f"specification says {exp['fin']} (0 = none, -1 = not {N} chunks of one run)")
    except Exception as e:  # noqa
        import traceback
        tb = traceback.format_exc()
        frames = [l for l in tb.splitlines() if l.strip().startswith('File ')]
        mine = max((i for i, l in enumerate(frames) if '/tcverif/' in l), default=-1)
        if any('/taskchain/' in l for l in frames[mine + 1:]):     # raised below a call into the library
            return idx, ('resumable:error', f"after {' ; '.join(done)}: {label} raised {type(e).__name__}: {e}")
        return idx, ('harness', f'{type(e).__name__}: {e}\n{tb[-800:]}')
    finally:
        shutil.rmtree(root, ignore_errors=True)
    return idx, None


def run(ctx, findings):
    quick = ctx.quick()
    steps = 6 if quick else 8
    res = run_tlc('Resumable', cfg_text=mc(steps + 2, False), workers=8, timeout=1800, coverage=True)
    account(ctx, res, f'Resumable: N={N} chunks, 2 task objects, {steps + 2} steps: ProgressKept, FinishedOnlyByFinishing, LoadTouchesNothing')
    res = run_tlc('Resumable', cfg_text=mc(steps, True), workers=1, timeout=1800)
    account(ctx, res, 'Resumable edge export')
    g = Graph(res.by_tag('E'), [e['st'] for e in res.by_tag('I')], drop=('steps',))
    cover, ncov = g.cover(maxlen=steps + 6, rng=ctx.rng, limit=400 if quick else None)
    walks = [g.walk(ctx.rng, 14) for _ in range(150 if quick else 3000)]
    behs = [g.behaviour(p)[1] for p in cover + walks]
    behs = [b for b in behs if b]
    module()
    out = pmap(replay, list(enumerate(behs)))
    ctx.traces += len(behs)
    ctx.extra['resumable_behaviours_replayed'] = len(behs)
    ctx.extra['resumable_edges'] = len(g.edges)
    ctx.extra['resumable_edges_covered'] = ncov
    for idx, bad in out:
        ctx.case('resumable' + json.dumps([a for a, _ in behs[idx]], sort_keys=True), nontrivial=True)
        if bad:
            if bad[0] == 'harness':
                raise MachineryError(bad[1])
            findings.append(bad)
