"""pytest plugin (lives in /verif, changes nothing in /repo): records, for every test of the repository's own suite,
the events of Task.data's decision logic at the observation boundary, one trace per test, for validation against
specs/StoreTrace.tla.   Use:  pytest -p tcverif.pytest_trace   with TCVERIF_TRACE_FILE=<out.json>

Events (per test, in program order; task / location identities are small integers local to the trace):
  DB t        Task.data entered for task object t           DE t / DX t   it returned / raised
  E t loc r   Data.exists() on t's data object returned r   L t loc       Data.load()
  R t         run is about to be called (arguments are being resolved)     P t   run returned, result being processed
  S t loc v   Data.save() / ContinuesData.finished() returned; v: the result is visible now        D t loc   Data.delete()
  X t loc     Data.on_run_error()                            F t del       Task.force(delete_data=del)
  Z t         Task.reset_data(): the object forgets the value it holds
"""
import json
import os

import pytest

TRACES = []
_cur = None


class _Trace:
    def __init__(self, test):
        self.test = test
        self.ev = []
        self.tasks = {}
        self.locs = {}
        self.meta = {}

    def tid(self, task):
        # (id() is reused once an object is collected: the identity is stored on the object itself)
        k = getattr(task, '_tcverif_tid', None)
        if k is None or k[0] is not self:
            k = (self, len(self.tasks) + 1)
            try:
                task._tcverif_tid = k
            except Exception:  # noqa
                pass
            self.tasks[k[1]] = k[1]
            self.meta[k[1]] = {'name': str(getattr(task, 'fullname', '?')), 'cls': type(task).__name__}
        return k[1]

    def lid(self, data):
        try:
            key = str(data._base_dir) + ':' + str(data._name) + ':' + type(data).__name__
        except Exception:  # noqa
            key = f'obj{id(data)}'
        if key not in self.locs:
            self.locs[key] = len(self.locs) + 1
        return self.locs[key]

    def add(self, *e):
        self.ev.append(list(e))


def _instrument_data(task, data):
    if getattr(data, '_tcverif', False) or _cur is None:
        return
    tr = _cur

    orig_exists = data.exists

    def wrap(name, code, with_result=False):
        orig = getattr(data, name, None)
        if orig is None:
            return

        def w(*a, **k):
            if _cur is not tr:
                return orig(*a, **k)
            if code == 'S':
                # what is recorded is whether the result is visible once save() / finished() returned
                r = orig(*a, **k)
                try:
                    vis = bool(orig_exists())
                except Exception:  # noqa
                    vis = False
                tr.add(code, tr.tid(task), tr.lid(data), vis)
                return r
            if with_result:
                r = orig(*a, **k)
                tr.add(code, tr.tid(task), tr.lid(data), bool(r))
                return r
            tr.add(code, tr.tid(task), tr.lid(data))
            return orig(*a, **k)

        try:
            setattr(data, name, w)
        except Exception:  # noqa
            pass

    wrap('exists', 'E', True)
    wrap('load', 'L')
    wrap('save', 'S')
    wrap('finished', 'S')
    wrap('delete', 'D')
    wrap('on_run_error', 'X')
    try:
        data._tcverif = True
    except Exception:  # noqa
        pass


def _install():
    from taskchain.task import Task

    if getattr(Task, '_tcverif_patched', False):
        return
    o_init_p = Task._init_persistence
    o_args = Task._get_run_arguments
    o_proc = Task._process_run_result
    o_force = Task.force
    o_reset = Task.reset_data
    o_data = Task.data.fget

    def init_p(self, data):
        r = o_init_p(self, data)
        _instrument_data(self, data)
        return r

    def args(self):
        if _cur is not None:
            _cur.add('R', _cur.tid(self))
        return o_args(self)

    def proc(self, run_result):
        if _cur is not None:
            _cur.add('P', _cur.tid(self))
            # a Data object returned by run itself (DirData, JSONData...) is instrumented before it is saved
            from taskchain.data import Data
            if isinstance(run_result, Data):
                _instrument_data(self, run_result)
        return o_proc(self, run_result)

    def force(self, delete_data=False):
        if _cur is not None:
            _cur.add('F', _cur.tid(self), bool(delete_data))
        return o_force(self, delete_data=delete_data)

    def reset_data(self):
        if _cur is not None:
            _cur.add('Z', _cur.tid(self))
        return o_reset(self)

    def data(self):
        if _cur is None:
            return o_data(self)
        tr = _cur
        t = tr.tid(self)
        tr.add('DB', t)
        try:
            r = o_data(self)
        except BaseException:
            tr.add('DX', t)
            raise
        tr.add('DE', t)
        return r

    Task._init_persistence = init_p
    Task._get_run_arguments = args
    Task._process_run_result = proc
    Task.force = force
    Task.reset_data = reset_data
    Task.data = property(data)
    Task._tcverif_patched = True


@pytest.hookimpl(hookwrapper=True)
def pytest_runtest_call(item):
    global _cur
    _install()
    _cur = _Trace(item.nodeid)
    outcome = yield
    tr, _cur = _cur, None
    TRACES.append({'test': tr.test, 'events': tr.ev, 'tasks': tr.meta, 'passed': outcome.excinfo is None})


def pytest_sessionfinish(session, exitstatus):
    out = os.environ.get('TCVERIF_TRACE_FILE')
    if out:
        with open(out, 'w') as f:
            json.dump(TRACES, f)
