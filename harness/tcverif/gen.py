"""Generated task classes whose results carry their provenance.

Every generated `run` returns a tree naming the task, the persisted parameter values it was configured with
and the values it received from the inputs it read.  A stale or foreign result is therefore *different data*.
The tree is encoded in the native type of the task's data kind.
"""
import json
import sys
import types
from collections.abc import Generator
from pathlib import Path

import numpy as np
import pandas as pd

from taskchain import InMemoryData, Task
from taskchain.data import ContinuesData, DirData, GeneratedDataLazy, ListOfNumpyData
from taskchain.parameter import InputTaskParameter, Parameter

# progress bars only pollute the output of the checks
import taskchain.utils.io as _tc_io  # noqa: E402

_tc_io.progress_bar = lambda data, **kw: data

RUNSEQ = [0]  # process-wide run counter (never reset: run records must identify the run that produced a result)
RUNLOG = []  # one entry per run invocation of a generated task, appended when the body finishes or raises
CTRL = {'raise': None, 'bad': {}}  # fault plan of the current step (see body())


class InjectedFailure(Exception):
    pass


class InjectedInterrupt(KeyboardInterrupt):
    """a run that is interrupted (Ctrl-C in a notebook): raises, but not an Exception"""


class MemVal(InMemoryData):
    """In-memory result of a generated task."""

    def __init__(self, tree=None):
        super().__init__()
        self.tree = tree

    def __len__(self):
        return 0      # a result object that is a collection, here an EMPTY one: falsy, but a result like any other


class Unserializable:
    pass


# --------------------------------------------------------------------------- encodings per data kind
def encode(kind, tree, task=None):
    blob = json.dumps(tree, sort_keys=True)
    if kind == 'json':
        return tree
    if kind == 'numpy':
        return np.frombuffer(blob.encode(), dtype=np.uint8).copy()
    if kind == 'pandas':
        return pd.DataFrame({'blob': [blob]})
    if kind == 'generated':
        return (x for x in [tree, {'n': 1}, {'n': 2}])
    if kind == 'lazy':
        d = GeneratedDataLazy()
        d.set_value(lambda: (x for x in [tree, {'n': 1}, {'n': 2}]))
        return d
    if kind == 'listnpy':
        d = ListOfNumpyData()
        arr = np.frombuffer(blob.encode(), dtype=np.uint8).copy()
        half = len(arr) // 2
        # the number of arrays varies with the generation of the run, so a result that is not completely replaced
        # by a recomputation (stale trailing files) is visible
        extra = (4 - tree.get('#gen', 0) % 3) if isinstance(tree, dict) and '#gen' in tree else 1
        d.set_value([arr[:half], arr[half:]] + [np.zeros(2)] * extra)
        return d
    if kind in ('dir', 'continues'):
        d = task.get_data_object()
        (d.dir / 'tree.json').write_text(blob)
        (d.dir / 'sub').mkdir(exist_ok=True)
        (d.dir / 'sub' / 'more.txt').write_text('x' * 10)
        if kind == 'dir' and tree.get('#gen') is not None:
            # a file only THIS run writes: a directory result must hold the files of one run and nothing else
            (d.dir / f"run_{tree['#gen']}.txt").write_text('r')
        if kind == 'continues':
            d.finished()
        return d
    if kind == 'figure':
        import pylab
        f = pylab.Figure()
        ax = f.add_subplot(111)
        ax.plot([1, 2, 3])
        ax.set_title(blob)      # the figure carries the provenance tree as its title
        return f
    if kind == 'mem':
        return MemVal(tree)
    if kind == 'memplain':       # a plain value kept in memory only (Meta.data_class = InMemoryData)
        return tree
    raise ValueError(kind)


def decode(kind, value):
    """Native value (as returned by task.value) -> provenance tree; raises if it is not a complete encoding."""
    if kind == 'json':
        return value
    if kind == 'numpy':
        return json.loads(bytes(value.astype(np.uint8)).decode())
    if kind == 'pandas':
        return json.loads(value['blob'][0])
    if kind in ('generated', 'lazy'):
        if callable(value):
            value = value()
        items = list(value)
        if items[1:] != [{'n': 1}, {'n': 2}]:
            raise ValueError(f'incomplete generated sequence: {items!r}')
        return items[0]
    if kind == 'listnpy':
        if len(value) < 3 or any(list(v) != [0, 0] for v in value[2:]):
            raise ValueError('incomplete list of arrays')
        tree = json.loads(bytes(np.concatenate(value[:2]).astype(np.uint8)).decode())
        extra = (4 - tree.get('#gen', 0) % 3) if isinstance(tree, dict) and '#gen' in tree else 1
        if len(value) != 2 + extra:
            raise ValueError(f'list of arrays has {len(value)} items, the run that wrote the first ones produced {2 + extra}')
        return tree
    if kind in ('dir', 'continues'):
        p = Path(value)
        if (p / 'sub' / 'more.txt').read_text() != 'x' * 10:
            raise ValueError('incomplete directory')
        tree = json.loads((p / 'tree.json').read_text())
        if kind == 'dir':
            want = {'tree.json', 'sub', 'sub/more.txt', 'started.txt'} | ({f"run_{tree['#gen']}.txt"} if tree.get('#gen') is not None else set())
            have = {str(q.relative_to(p)) for q in p.rglob('*')}
            if have != want:
                raise ValueError(f'directory result holds {sorted(have)}, the run that produced it wrote {sorted(want)}')
        return tree
    if kind == 'figure':
        return json.loads(value.axes[0].get_title())
    if kind == 'mem':
        return value.tree
    if kind == 'memplain':
        if not isinstance(value, dict):
            raise ValueError(f'an in-memory task returned {type(value).__name__} instead of the value of its run')
        return value
    raise ValueError(kind)


RETURN_TYPES = {
    'json': dict, 'numpy': np.ndarray, 'pandas': pd.DataFrame, 'generated': Generator, 'lazy': GeneratedDataLazy,
    'listnpy': ListOfNumpyData, 'dir': DirData, 'continues': ContinuesData, 'mem': MemVal, 'figure': None, 'memplain': dict,
}
EXT = {'json': '.json', 'numpy': '.npy', 'pandas': '.pd', 'generated': '.jsonl', 'lazy': '.jsonl',
       'listnpy': '', 'dir': '', 'continues': '', 'mem': None, 'figure': '.pickle', 'memplain': None}


def body(task, ins, params):
    """Shared body of every generated run."""
    spec = task.__class__._vspec
    persisted = {}
    for p in spec['params']:
        if p.get('ignore'):
            continue
        v = params[p['name']] if p['name'] in params else task.params[p['name']]
        if p.get('dpd') and 'default' in p and v == p['default']:
            continue
        persisted[p['name']] = _plain(v)
    for name in spec.get('registry_pulls', []):
        ns = task.fullname.rpartition('::')[0]
        # (an input from an inner namespace is addressed by its qualified name: once the pipeline is itself mounted under
        #  a namespace the registry does not resolve the partial form 'lo::b' - not one of the forms of C10)
        ins[name] = task.input_tasks[f'{ns}::{name}' if ns and '::' in name else name].value
    for name in spec.get('opt_pulls', []):     # an optional input: read when the chain has wired a task for it
        for k, v in dict.items(task.input_tasks):
            if (k == name or k.endswith('::' + name)) and v is not None:
                ins[name] = v.value
    kind = spec['kind']
    tree = {'t': spec['slug'], 'p': persisted,
            'i': {k: (_totree(spec['input_kinds'].get(k), v)) for k, v in ins.items()}}
    if CTRL.get('gen') is not None:
        tree['#gen'] = CTRL['gen']   # generation of the run (which call of the behaviour executed it)
    entry = {'obj': id(task), 'slug': spec['slug'], 'fullname': task.fullname, 'tree': tree, 'raised': False,
             'key': _safe_key(task)}
    RUNSEQ[0] += 1
    seq = RUNSEQ[0] * 100000 + (__import__('os').getpid() % 100000)
    msgs = spec.get('logs', ['m0', 'm1'])
    late = None
    for i, msg in enumerate(msgs):
        task.logger.info(f'USER {spec["slug"]} run#{seq} {msg}')
        if task._config is not None:
            if kind == 'generated' and i == len(msgs) - 1:
                late = {'rec': i, 'run': seq}   # a generator task adds its last record from the generator body
            elif i == 0:      # a record with a tuple and a non-string key: stored and returned as it was given
                task.save_to_run_info({'rec': i, 'run': seq, 'pair': (seq, 'x'), 7: 'seven'})
            else:
                task.save_to_run_info({'rec': i, 'run': seq})
    entry['seq'] = seq
    try:
        entry['param_reprs'] = {p.name: p.value_repr() for p in task.params.values()}
    except Exception:  # noqa
        entry['param_reprs'] = None
    if kind in ('dir', 'continues') and task._config is not None:
        # the run has begun to fill its work directory when it fails (what is set aside is not empty)
        (task.get_data_object().dir / 'started.txt').write_text('s')
    plan = CTRL.get('raise')
    if plan is not None and _matches(plan, task, tree):
        entry['raised'] = True
        RUNLOG.append(entry)
        if CTRL.get('raise_base'):
            raise InjectedInterrupt(f'injected interrupt of {task.fullname}')
        raise InjectedFailure(f'injected failure in {task.fullname}')
    bad = CTRL.get('bad') or {}
    mode = next((m for pl, m in bad.items() if _matches(json.loads(pl), task, tree)), None)
    RUNLOG.append(entry)
    if mode is not None:
        entry['raised'] = True   # the request fails (while the result is checked / stored): not a successful run
    if late is not None and mode is None:
        def _late():
            task.save_to_run_info(late)
            yield from [tree, {'n': 1}, {'n': 2}]
        return _late()
    if late is not None:
        task.save_to_run_info(late)
    if mode == 'mistyped':
        return Unserializable() if kind not in ('mem', 'memplain') else 5
    if mode == 'unserializable':
        if kind == 'json':
            return {'x': Unserializable()}
        if kind == 'generated':
            return (x for x in [tree, Unserializable()])
        if kind == 'lazy':
            d = GeneratedDataLazy()
            d.set_value(lambda: (x for x in [tree, Unserializable()]))
            return d
        return Unserializable()
    if mode == 'genraise':
        def _g():
            yield tree
            raise InjectedFailure('generator body raises')
        if kind == 'lazy':
            d = GeneratedDataLazy()
            d.set_value(_g)
            return d
        return _g()
    return encode(kind, tree, task)


def _safe_key(task):
    try:
        return task.name_for_persistence if task._config is not None else None
    except Exception:  # noqa
        return None


def _matches(plan, task, tree):
    if plan.get('objs') is not None:
        return id(task) in plan['objs']
    if plan.get('obj') is not None:
        return plan['obj'] == id(task)
    if plan.get('tree') is not None:
        return plan['tree'] == tree
    return plan.get('slug') == task.slugname


def _plain(v):
    if isinstance(v, (str, int, float, bool)) or v is None:
        return str(v) if isinstance(v, str) else v
    if isinstance(v, list):
        return [_plain(x) for x in v]
    if isinstance(v, dict):
        return {str(k): _plain(x) for k, x in v.items()}
    return repr(v)


def _totree(kind, v):
    if kind is None:
        return _plain(v) if not isinstance(v, dict) else v
    return decode(kind, v)


# --------------------------------------------------------------------------- class factory
def make_task_class(spec, module_name='vgen'):
    """spec: dict with
         slug        'name' or 'group:name'
         cls_name    python class name (optional)
         params      [{'name', 'default'?, 'ignore'?, 'dpd'?, 'name_in_config'?, 'dtype'?}]
         inputs      [{'ref': slug or '~pattern', 'how': 'class'|'name'|'param', 'optional'?: bool, 'default'?}]
                     (resolved to classes by make_module when how == 'class')
         pulls       [argument names read through run's signature]   (short task names)
         registry_pulls  [names read through self.input_tasks[...] inside the body]
         run_params  [parameter names in run's signature]
         kind        data kind
         input_kinds {argname: kind of that input}  (to decode received values)
    """
    slug = spec['slug']
    group, _, name = slug.rpartition(':')
    args = list(spec.get('pulls', [])) + list(spec.get('run_params', []))
    src = (
        f"def run(self{''.join(', ' + a for a in args)}):\n"
        f"    return _body(self, {{{', '.join(repr(a) + ': ' + a for a in spec.get('pulls', []))}}}, "
        f"{{{', '.join(repr(a) + ': ' + a for a in spec.get('run_params', []))}}})\n"
    )
    ns = {'_body': body}
    exec(src, ns)
    run = ns['run']
    run.__annotations__['return'] = RETURN_TYPES[spec['kind']] or __import__('pylab').Figure
    meta = {'name': name}
    if spec['kind'] == 'memplain':
        meta['data_class'] = InMemoryData
    if group:
        meta['task_group'] = group
    params = []
    for p in spec.get('params', []):
        kw = {}
        if 'default' in p:
            kw['default'] = p['default']
        if p.get('ignore'):
            kw['ignore_persistence'] = True
        if p.get('dpd'):
            kw['dont_persist_default_value'] = True
        if p.get('name_in_config'):
            kw['name_in_config'] = p['name_in_config']
        if p.get('dtype'):
            kw['dtype'] = {'str': str, 'int': int, 'path': Path}.get(p['dtype'], p['dtype'])
        params.append(Parameter(p['name'], **kw))
    meta['parameters'] = params
    meta['input_tasks'] = []  # filled by make_module once all classes exist
    if spec.get('abstract'):
        meta['abstract'] = True
    if spec.get('meta_inherit'):
        # everything but the name is declared in a base Meta class the task's Meta derives from
        base_meta = type('CommonMeta', (), {k: v for k, v in meta.items() if k != 'name'})
        Meta = type('Meta', (base_meta,), {'name': meta['name']})
    else:
        Meta = type('Meta', (), meta)
    cls_name = spec.get('cls_name') or ''.join(w.capitalize() for w in name.split('_')) + 'Task'
    base = spec.get('_base_cls') or Task
    cls = type(Task)(cls_name, (base,), {'Meta': Meta, 'run': run, '__module__': module_name, '_vspec': spec})
    return cls


def make_module(specs, module_name):
    """Create the classes for a list of task specs, wire their inputs, register an importable module."""
    mod = types.ModuleType(module_name)
    classes = {}
    for spec in specs:
        spec.setdefault('params', [])
        spec.setdefault('inputs', [])
        spec.setdefault('kind', 'json')
        spec.setdefault('input_kinds', {})
        if spec.get('base'):   # a task class derived from another task class, with a Meta of its own
            spec['_base_cls'] = classes[spec['base']]
        classes[spec['slug']] = make_task_class(spec, module_name)
    for spec in specs:
        cls = classes[spec['slug']]
        its = []
        for inp in spec['inputs']:
            how = inp.get('how', 'class')
            ref = inp['ref']
            if how == 'class':
                its.append(classes[ref])
            elif how == 'name':
                its.append(ref)
            elif how == 'param_in_list':      # an InputTaskParameter written INSIDE Meta.input_tasks
                target = classes[ref] if inp.get('by_class', True) and ref in classes else ref
                its.append(InputTaskParameter(target, **({'default': inp['default']} if 'default' in inp else {})))
            elif how == 'param':
                target = classes[ref] if inp.get('by_class', True) and ref in classes else ref
                kw = {'default': inp['default']} if 'default' in inp else {}
                cls.Meta.parameters.append(InputTaskParameter(target, **kw))
            else:
                raise ValueError(how)
        (cls.Meta.__bases__[0] if spec.get('meta_inherit') else cls.Meta).input_tasks = its
        if spec.get('meta_inherit') and 'input_tasks' in vars(cls.Meta):
            del cls.Meta.input_tasks
        setattr(mod, cls.__name__, cls)
    mod.CLASSES = classes
    sys.modules[module_name] = mod
    parent, _, child = module_name.rpartition('.')
    if parent:
        if parent not in sys.modules:
            sys.modules[parent] = types.ModuleType(parent)
            sys.modules[parent].__path__ = []
        setattr(sys.modules[parent], child, mod)
    return mod
