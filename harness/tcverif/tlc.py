"""Running TLC and reading back what it printed."""
import json
import os
import re
import shutil
import subprocess
import time
from pathlib import Path

from .core import SPECS, MachineryError, scratch

JAR = '/opt/veriftools/tla/tla2tools.jar:/opt/veriftools/tla/CommunityModules-deps.jar'
_counter = [0]


class TLCResult:
    def __init__(self):
        self.stdout = ''
        self.generated = 0
        self.distinct = 0
        self.depth = 0
        self.wall = 0.0
        self.ok = False  # "No error has been found"
        self.invariant_violated = None
        self.emitted = []  # decoded objects printed by the spec with the "@@" prefix
        self.coverage = {}  # action name -> (distinct, generated)
        self.error_trace = []
        self.rc = 0

    def by_tag(self, tag):
        return [e for e in self.emitted if isinstance(e, dict) and e.get('tag') == tag]


def _parse(res: TLCResult, keep_stdout=True):
    out = res.stdout
    for line in out.splitlines():
        if line.startswith('"@@'):
            try:
                inner = json.loads(line)
                res.emitted.append(json.loads(inner[2:]))
            except Exception as e:  # pragma: no cover
                raise MachineryError(f'cannot decode TLC output line: {line[:200]} ({e})')
    m = re.findall(r'(\d+) states generated, (\d+) distinct states found', out)
    if m:
        res.generated, res.distinct = int(m[-1][0]), int(m[-1][1])
    m = re.search(r'depth of the complete state graph search is (\d+)', out)
    if m:
        res.depth = int(m.group(1))
    res.ok = 'No error has been found' in out
    m = re.search(r'Invariant (\S+) is violated', out)
    if m:
        res.invariant_violated = m.group(1)
    m = re.search(r'Action property (\S+) is violated', out)
    if m:
        res.invariant_violated = m.group(1)
    if 'Temporal properties were violated' in out:
        res.invariant_violated = res.invariant_violated or 'temporal'
    # coverage lines: <Name line .. of module M>: distinct:generated
    for m in re.finditer(r'^<(\w+) line \d+, col \d+ to line \d+, col \d+ of module (\w+)>: (\d+):(\d+)', out, re.M):
        name = m.group(1)
        d, g = int(m.group(3)), int(m.group(4))
        old = res.coverage.get(name, (0, 0))
        res.coverage[name] = (old[0] + d, old[1] + g)
    if not keep_stdout:
        res.stdout = out[-4000:]


def run_tlc(
    module: str,
    cfg_text: str = None,
    cfg_file: str = None,
    workers: int = 16,
    extra_files: dict = None,
    env: dict = None,
    timeout: int = 1800,
    simulate: str = None,
    depth: int = None,
    seed: int = None,
    coverage: bool = False,
    deadlock: bool = False,
    dfs_queue: bool = False,
    expect_ok: bool = True,
    keep_stdout: bool = False,
    heap: str = '6g',
) -> TLCResult:
    """Run TLC on /verif/specs/<module>.tla (or on a generated module given in extra_files).

    extra_files: {filename: text} written to the run directory (generated MC modules, data files).
    The run directory is a scratch copy of the specs so TLC never writes into /verif.
    """
    _counter[0] += 1
    rundir = scratch(f'tlc-{_counter[0]}-{module}')
    for f in SPECS.glob('*.tla'):
        shutil.copy(f, rundir / f.name)
    for name, text in (extra_files or {}).items():
        (rundir / name).write_text(text)
    if cfg_text is not None:
        cfg = rundir / f'{module}.run.cfg'
        cfg.write_text(cfg_text)
    else:
        cfg = rundir / (cfg_file or f'{module}.cfg')
        if not cfg.exists():
            shutil.copy(SPECS / cfg.name, cfg)
    tmp = rundir / 'jtmp'
    tmp.mkdir(exist_ok=True)
    opts = f'-Djava.io.tmpdir={tmp}'
    if dfs_queue:
        opts += ' -Dtlc2.tool.queue.IStateQueue=StateDeque'
    cmd = ['java', '-XX:+UseParallelGC', f'-Xmx{heap}', *opts.split(), '-cp', JAR, 'tlc2.TLC',
           '-workers', str(workers), '-metadir', str(rundir / 'meta'), '-noGenerateSpecTE', '-config', str(cfg)]
    if not deadlock:
        cmd += ['-deadlock']  # -deadlock DISABLES deadlock checking
    if coverage:
        cmd += ['-coverage', '1']
    if simulate:
        cmd += ['-simulate', simulate]
    if depth:
        cmd += ['-depth', str(depth)]
    if seed is not None:
        cmd += ['-seed', str(seed)]
    cmd += [f'{module}.tla']
    e = dict(os.environ)
    e.pop('JAVA_TOOL_OPTIONS', None)
    e.update(env or {})
    t0 = time.time()
    try:
        p = subprocess.run(cmd, cwd=rundir, env=e, stdout=subprocess.PIPE, stderr=subprocess.STDOUT, timeout=timeout,
                           text=True, errors='replace')
    except subprocess.TimeoutExpired:
        subprocess.run(['pkill', '-f', f'metadir {rundir}'], check=False)
        raise MachineryError(f'TLC timed out after {timeout}s on {module}')
    res = TLCResult()
    res.stdout = p.stdout
    res.rc = p.returncode
    res.wall = time.time() - t0
    _parse(res, keep_stdout=keep_stdout)
    shutil.rmtree(rundir / 'meta', ignore_errors=True)
    shutil.rmtree(tmp, ignore_errors=True)
    bad = any(s in p.stdout for s in ('Parsing or semantic analysis failed', 'Error: ', 'java.lang.', 'TLC threw'))
    if expect_ok and (not res.ok or bad) and not simulate:
        raise MachineryError(f'TLC did not complete cleanly on {module}:\n{p.stdout[-3000:]}')
    if simulate and ('Parsing or semantic analysis failed' in p.stdout or 'TLC threw' in p.stdout):
        raise MachineryError(f'TLC simulation failed on {module}:\n{p.stdout[-3000:]}')
    return res


def account(ctx, res: TLCResult, label: str, dead_ok=()):
    """Add a TLC run to the evidence of ctx and fail on dead actions (vacuity guard)."""
    ctx.states += res.distinct
    ctx.transitions += res.generated
    entry = {'run': label, 'distinct_states': res.distinct, 'states_generated': res.generated, 'depth': res.depth,
             'wall_s': round(res.wall, 1)}
    if res.coverage:
        entry['action_coverage'] = {k: v[1] for k, v in sorted(res.coverage.items())}
        dead = [k for k, v in res.coverage.items() if v[1] == 0 and k not in dead_ok and k != 'Init']
        if dead:
            raise MachineryError(f'vacuity guard: actions never taken in {label}: {dead}')
    ctx.tlc_runs.append(entry)


def tla_str(s: str) -> str:
    """A Python string as a TLA+ string literal."""
    return '"' + s.replace('\\', '\\\\').replace('"', '\\"') + '"'


def tla(v) -> str:
    """Python value -> TLA+ expression (ints, strings, bools, list->tuple, set, dict->function/record)."""
    if isinstance(v, bool):
        return 'TRUE' if v else 'FALSE'
    if isinstance(v, int):
        return str(v)
    if isinstance(v, str):
        return tla_str(v)
    if isinstance(v, (list, tuple)):
        return '<<' + ', '.join(tla(x) for x in v) + '>>'
    if isinstance(v, (set, frozenset)):
        return '{' + ', '.join(tla(x) for x in sorted(v, key=repr)) + '}'
    if isinstance(v, dict):
        if not v:
            return '<<>>'
        return '(' + ' @@ '.join(f'{tla(k)} :> {tla(x)}' for k, x in v.items()) + ')'
    raise TypeError(f'no TLA+ rendering for {v!r}')
