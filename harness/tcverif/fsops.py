"""File-system interposition inside the harness process: every operation that can change what a later reader sees
under a watched directory is counted, recorded and can be made the instant at which the process dies.

Operations (one record each):  open_w <path>   (create/truncate/append - the file is then written until the next op)
                               rename <src> <dst> | unlink <path> | rmdir <path> | mkdir <path>
                               rm_begin <path> / rm_end <path>  bracket a shutil.rmtree (its inner unlink/rmdir are ops)
Crash point k = die (os._exit, no flush, no finally) immediately BEFORE operation k.
"""
import builtins
import io
import os
import shutil
from pathlib import Path


class Recorder:
    def __init__(self, root, crash_at=None, exc_at=None, crash_after=None):
        self.root = str(root)
        self.ops = []
        self.crash_at = crash_at
        self.exc_at = exc_at  # raise OSError instead of performing operation k
        self.crash_after = crash_after  # die immediately AFTER operation k returned (before the caller does anything else)
        self.snap = {}  # op index of an open_w -> bytes the file had when the NEXT op happened
        self._open_idx = []
        self._in_rm = None
        self.active = False
        self.installed = False

    # ---------------------------------------------------------------- the hook
    def hit(self, name, path, path2=None):
        if not self.active:
            return
        p = os.fspath(path) if not isinstance(path, int) else None
        if p is not None and not os.path.isabs(p):
            p = os.path.join(self._in_rm, p) if self._in_rm else os.path.abspath(p)
        if p is None or not p.startswith(self.root):
            return
        idx = len(self.ops)
        # the files opened by the previous ops are complete (or as complete as they get) by now: snapshot them
        for oi in self._open_idx:
            op = self.ops[oi]
            try:
                self.snap[oi] = Path(op[1]).read_bytes() if os.path.isfile(op[1]) else None
            except OSError:
                self.snap[oi] = None
        self._open_idx = []
        if self.crash_at is not None and idx == self.crash_at:
            os._exit(77)
        if self.exc_at is not None and idx == self.exc_at and name not in ('rm_begin', 'rm_end', 'end'):  # (markers are not operations)
            self.ops.append(('exc', p, None))
            raise OSError(28, 'injected failure of a file-system operation')
        self.ops.append((name, p, os.fspath(path2) if path2 is not None else None))
        if name == 'open_w':
            self._open_idx.append(idx)

    def after(self):
        """called right after an operation was performed: the process may die here, with whatever is still buffered"""
        if self.active and self.crash_after is not None and len(self.ops) - 1 == self.crash_after:
            os._exit(77)

    # ---------------------------------------------------------------- patching
    def install(self):
        if self.installed:
            return
        rec = self
        self._orig = dict(open=builtins.open, io_open=io.open, rename=os.rename, replace=os.replace, unlink=os.unlink,
                          remove=os.remove, rmdir=os.rmdir, mkdir=os.mkdir, rmtree=shutil.rmtree)
        o = self._orig

        def _is_write(mode):
            return any(c in mode for c in 'wax+')

        def open_(file, mode='r', *a, **k):
            if isinstance(file, (str, bytes, os.PathLike)) and _is_write(mode):
                rec.hit('open_w', file)
            return o['open'](file, mode, *a, **k)

        def rename(src, dst, *a, **k):
            rec.hit('rename', src, dst)
            r = o['rename'](src, dst, *a, **k)
            rec.after()
            return r

        def replace(src, dst, *a, **k):
            rec.hit('rename', src, dst)
            r = o['replace'](src, dst, *a, **k)
            rec.after()
            return r

        def unlink(path, *a, **k):
            rec.hit('unlink', path)
            return o['unlink'](path, *a, **k)

        def rmdir(path, *a, **k):
            rec.hit('rmdir', path)
            return o['rmdir'](path, *a, **k)

        def mkdir(path, *a, **k):
            rec.hit('mkdir', path)
            return o['mkdir'](path, *a, **k)

        def rmtree(path, *a, **k):
            # inner unlink/rmdir calls use dir_fd-relative names: resolve them against a plain recursive walk instead
            p = os.fspath(path)
            if not rec.active or not os.path.abspath(p).startswith(rec.root):
                return o['rmtree'](path, *a, **k)
            if not os.path.lexists(p):
                if k.get('ignore_errors') or (a and a[0]):
                    return None
                return o['rmtree'](path, *a, **k)
            ignore = bool(k.get('ignore_errors') or (a and a[0]))

            def step(fn, *args):
                # (shutil.rmtree(ignore_errors=True) swallows the failure of every single operation and goes on)
                try:
                    fn(*args)
                except OSError:
                    if not ignore:
                        raise

            step(rec.hit, 'rm_begin', p)
            for dirpath, dirnames, filenames in os.walk(p, topdown=False):
                for f in filenames:
                    step(unlink, os.path.join(dirpath, f))
                for d in dirnames:
                    full = os.path.join(dirpath, d)
                    if os.path.islink(full):
                        step(unlink, full)
                    else:
                        step(rmdir, full)
            step(rmdir, p)
            rec.hit('rm_end', p)

        builtins.open = open_
        io.open = open_
        os.rename, os.replace, os.unlink, os.remove, os.rmdir, os.mkdir = rename, replace, unlink, unlink, rmdir, mkdir
        shutil.rmtree = rmtree
        self.installed = True

    def uninstall(self):
        if not self.installed:
            return
        o = self._orig
        builtins.open, io.open = o['open'], o['io_open']
        os.rename, os.replace, os.unlink, os.remove, os.rmdir, os.mkdir = (o['rename'], o['replace'], o['unlink'],
                                                                          o['remove'], o['rmdir'], o['mkdir'])
        shutil.rmtree = o['rmtree']
        self.installed = False

    def finish(self):
        """snapshot files still pending and stop recording"""
        self.active = True
        self.hit('end', self.root)
        self.active = False
        self.ops.pop()
