"""Process helpers: fork-per-epoch execution (fresh interpreter state at 3 ms) and a fork pool."""
import multiprocessing as mp
import os
import pickle
import signal
import struct
import sys
import traceback


def _env_setup():
    os.environ.setdefault('TQDM_DISABLE', '1')
    os.environ.setdefault('PYTHONHASHSEED', '0')


class ChildCrashed(Exception):
    def __init__(self, status, partial=None):
        super().__init__(f'child ended with status {status}')
        self.status = status
        self.partial = partial


def run_forked(fn, *args, timeout=120, **kwargs):
    """Run fn(*args) in a forked child and return its (pickled) result.

    A child that dies (os._exit in a crash-injection step, signal) raises ChildCrashed.
    An exception inside fn is re-raised in the parent as RuntimeError with the child's traceback.
    """
    r, w = os.pipe()
    sys.stdout.flush()
    sys.stderr.flush()
    pid = os.fork()
    if pid == 0:
        code = 0
        try:
            os.close(r)
            try:
                payload = ('ok', fn(*args, **kwargs))
            except BaseException as e:  # noqa
                payload = ('exc', ''.join(traceback.format_exception(type(e), e, e.__traceback__)))
            data = pickle.dumps(payload)
            with os.fdopen(w, 'wb') as f:
                f.write(struct.pack('<Q', len(data)))
                f.write(data)
        except BaseException:  # noqa
            code = 3
        finally:
            os._exit(code)
    os.close(w)

    def _alarm(signum, frame):
        try:
            os.kill(pid, signal.SIGKILL)
        except ProcessLookupError:
            pass

    use_alarm = False
    try:
        old = signal.signal(signal.SIGALRM, _alarm)
        signal.alarm(timeout)
        use_alarm = True
    except ValueError:  # not in main thread
        pass
    try:
        with os.fdopen(r, 'rb') as f:
            head = f.read(8)
            data = f.read(struct.unpack('<Q', head)[0]) if len(head) == 8 else b''
    finally:
        if use_alarm:
            signal.alarm(0)
            signal.signal(signal.SIGALRM, old)
    _, status = os.waitpid(pid, 0)
    if not data:
        raise ChildCrashed(status)
    kind, val = pickle.loads(data)
    if kind == 'exc':
        raise RuntimeError('exception in forked child:\n' + val)
    return val


def _init_worker():
    _env_setup()


def pmap(fn, items, workers=None, chunksize=None):
    """Ordered parallel map over a fork pool (the parent has already imported what fn needs)."""
    items = list(items)
    if not items:
        return []
    workers = min(workers or int(os.environ.get('TCVERIF_WORKERS', '16')), len(items))
    if workers <= 1:
        return [fn(i) for i in items]
    if chunksize is None:
        chunksize = max(1, len(items) // (workers * 8))
    ctx = mp.get_context('fork')
    with ctx.Pool(workers, initializer=_init_worker) as pool:
        return pool.map(fn, items, chunksize=chunksize)
