"""Core plumbing shared by every check: scratch space, evidence, known findings, verdicts.

Verdict rule (DESIGN.md 3.4): a VIOLATION is printed only for an observation of the real code that
contradicts the property-level specification.  Machinery failures exit 2 and never print VIOLATION.
"""
import atexit
import hashlib
import json
import os
import random
import re
import shutil
import sys
import tempfile
import time
import traceback
from pathlib import Path

VERIF = Path(__file__).resolve().parents[2]
SPECS = VERIF / 'specs'
EVIDENCE = Path(os.environ.get('TCVERIF_EVIDENCE_DIR', VERIF / 'evidence'))
REPLAYS = Path(os.environ.get('TCVERIF_REPLAY_DIR', VERIF / 'replays'))
REPO = Path(os.environ.get('TASKCHAIN_REPO', '/repo'))
GUARD = 'TASKCHAIN_VERIF'


class MachineryError(Exception):
    """The checking machinery itself failed (TLC crash, parse error, ...): exit code 2."""


_scratch_root = None


def scratch_root() -> Path:
    """One scratch root per process, removed at exit (nothing registered needs /tmp afterwards)."""
    global _scratch_root
    if _scratch_root is None:
        base = Path(os.environ.get('TMPDIR', '/tmp'))
        _scratch_root = Path(tempfile.mkdtemp(prefix=f'tcverif-{os.getpid()}-', dir=base))
        pid = os.getpid()

        def _cleanup(root=_scratch_root, pid=pid):
            if os.getpid() == pid:  # forked children must not remove the parent's scratch
                shutil.rmtree(root, ignore_errors=True)

        atexit.register(_cleanup)
    return _scratch_root


def scratch(name: str) -> Path:
    p = scratch_root() / name
    p.mkdir(parents=True, exist_ok=True)
    return p


def load_known_findings():
    path = VERIF / 'known_findings.json'
    if not path.exists():
        return {'findings': [], 'fixed': []}
    return json.loads(path.read_text())


def jsonable(x):
    if isinstance(x, dict):
        return {str(k): jsonable(v) for k, v in x.items()}
    if isinstance(x, (list, tuple)):
        return [jsonable(v) for v in x]
    if isinstance(x, (set, frozenset)):
        return sorted((jsonable(v) for v in x), key=repr)
    if isinstance(x, (str, int, float, bool)) or x is None:
        return x
    if isinstance(x, Path):
        return str(x)
    if isinstance(x, bytes):
        return x.decode('latin1')
    return repr(x)


class Ctx:
    """Accumulates what one run of one property's check covered and found."""

    def __init__(self, prop: str, tier: str, seed: int, level: str = 'model_checking'):
        self.prop = prop
        self.tier = tier
        self.seed = seed
        self.level = level
        self.rng = random.Random(seed)
        self.t0 = time.time()
        self.states = 0  # distinct states summed over the TLC runs of this check
        self.transitions = 0  # states generated (= transitions computed) summed over TLC runs
        self.traces = 0  # behaviours replayed into / traces recorded from the implementation
        self.evaluations = 0
        self.distinct = set()
        self.samples = []
        self.assumptions = []
        self.notes = []
        self.extra = {}
        self.tlc_runs = []
        self.violations = []
        self.known_hits = {}
        self.exhaustive = None
        self._known = [f for f in load_known_findings().get('findings', []) if f.get('property') == prop]

    # ------------------------------------------------------------------ bookkeeping
    def quick(self):
        return self.tier == 'quick'

    def sample(self, obj, limit=6):
        if len(self.samples) < limit:
            self.samples.append(jsonable(obj))

    def note(self, text):
        if text not in self.notes:
            self.notes.append(text)

    def count(self, key, n=1):
        self.extra[key] = self.extra.get(key, 0) + n

    def case(self, distinct_key=None, nontrivial=True):
        """Register one evaluated case; distinct_key identifies it for the distinct count."""
        self.evaluations += 1
        if nontrivial and distinct_key is not None:
            self.distinct.add(distinct_key if isinstance(distinct_key, (str, int)) else repr(distinct_key))

    # ------------------------------------------------------------------ findings
    def report(self, sig: str, what: str, detail=None):
        """Report an observed contradiction with the property.

        sig identifies the failing input class / call site / history so that known findings can be matched
        narrowly; what is one human-readable line; detail is stored in the replay file.
        """
        for k in self._known:
            if re.fullmatch(k['sig'], sig):
                hit = self.known_hits.setdefault(k['id'], {'entry': k, 'count': 0, 'example': what})
                hit['count'] += 1
                return False
        if any(v['sig'] == sig for v in self.violations):
            for v in self.violations:
                if v['sig'] == sig:
                    v['count'] += 1
            return True
        digest = hashlib.sha1(f'{self.prop}|{sig}'.encode()).hexdigest()[:12]
        rdir = REPLAYS / self.prop
        rdir.mkdir(parents=True, exist_ok=True)
        path = rdir / f'{digest}.json'
        path.write_text(
            json.dumps(
                {'property': self.prop, 'sig': sig, 'what': what, 'seed': self.seed, 'tier': self.tier,
                 'detail': jsonable(detail)},
                indent=1,
            )
        )
        self.violations.append({'sig': sig, 'what': what, 'path': str(path), 'count': 1})
        return True

    # ------------------------------------------------------------------ output
    def finish(self) -> int:
        wall = time.time() - self.t0
        write_evidence = not getattr(self, 'replay_mode', False)   # a --replay run must not replace the evidence of a check
        coverage = {
            'states': self.states,
            'transitions': self.transitions,
            'traces_validated_against_impl': self.traces,
            'evaluations': max(self.evaluations, 0),
            'distinct_nontrivial': len(self.distinct),
            'samples': self.samples or ['(none recorded)'],
            'tlc_runs': self.tlc_runs,
            'notes': self.notes,
        }
        if self.exhaustive is not None:
            coverage['exhaustive'] = bool(self.exhaustive)
        coverage.update(self.extra)
        ev = {
            'property_id': self.prop,
            'tier': self.tier,
            'seed': self.seed,
            'level': self.level,
            'coverage': coverage,
            'assumptions': self.assumptions,
            'wall_s': round(wall, 2),
            'violations': len(self.violations),
            'known_findings_seen': [
                {'id': i, 'count': h['count'], 'example': h['example']} for i, h in self.known_hits.items()
            ],
        }
        if write_evidence:
            EVIDENCE.mkdir(exist_ok=True, parents=True)
            (EVIDENCE / f'{self.prop}.json').write_text(json.dumps(jsonable(ev), indent=1) + '\n')
        for i, h in self.known_hits.items():
            print(f"KNOWN-FINDING: property={self.prop} {h['entry']['what']} [{i}; seen {h['count']}x this run]")
        for v in self.violations:
            print(f"VIOLATION property={self.prop} replay={v['path']}")
            print(f"  {v['what']}" + (f"  (x{v['count']})" if v['count'] > 1 else ''))
        status = 'VIOLATED' if self.violations else 'held'
        print(
            f'{self.prop} {self.tier}: {status}; states={self.states} transitions={self.transitions} '
            f'impl_traces={self.traces} evaluations={self.evaluations} distinct={len(self.distinct)} '
            f'wall={wall:.1f}s'
        )
        return 1 if self.violations else 0


def main_guard(fn):
    """Run a check body, mapping machinery failures to exit code 2."""
    try:
        return fn()
    except MachineryError as e:
        print(f'MACHINERY-FAILURE: {e}', file=sys.stderr)
        return 2
    except Exception:
        traceback.print_exc()
        print('MACHINERY-FAILURE: unexpected exception in the harness', file=sys.stderr)
        return 2
