"""A small parser for TLA+ values as TLC prints them (trace files of `-simulate file=...`, error traces)."""
import re

_tok = re.compile(r'''\s*(?:
    (?P<str>"(?:\\.|[^"\\])*") |
    (?P<num>-?\d+) |
    (?P<sym><<|>>|\|->|:>|@@|\.\.|[\[\]{}(),]) |
    (?P<id>[A-Za-z_][A-Za-z0-9_!]*)
)''', re.X)


def tokenize(text):
    pos, out = 0, []
    text = text.rstrip()
    while pos < len(text):
        m = _tok.match(text, pos)
        if not m:
            raise ValueError(f'cannot tokenize TLA value at: {text[pos:pos + 40]!r}')
        pos = m.end()
        kind = m.lastgroup
        out.append((kind, m.group(kind)))
    return out


class _P:
    def __init__(self, toks):
        self.t = toks
        self.i = 0

    def peek(self):
        return self.t[self.i] if self.i < len(self.t) else (None, None)

    def eat(self, val=None):
        k, v = self.t[self.i]
        if val is not None and v != val:
            raise ValueError(f'expected {val} got {v}')
        self.i += 1
        return k, v

    def value(self):
        k, v = self.peek()
        if k == 'str':
            self.eat()
            return re.sub(r'\\(.)', lambda m: {'n': '\n', 't': '\t'}.get(m.group(1), m.group(1)), v[1:-1])
        if k == 'num':
            self.eat()
            n = int(v)
            if self.peek()[1] == '..':
                self.eat()
                hi = int(self.eat()[1])
                return list(range(n, hi + 1))
            return n
        if k == 'id':
            self.eat()
            if v == 'TRUE':
                return True
            if v == 'FALSE':
                return False
            return v  # model value
        if v == '<<':
            self.eat()
            out = []
            while self.peek()[1] != '>>':
                out.append(self.value())
                if self.peek()[1] == ',':
                    self.eat()
            self.eat('>>')
            return out
        if v == '{':
            self.eat()
            out = []
            while self.peek()[1] != '}':
                out.append(self.value())
                if self.peek()[1] == ',':
                    self.eat()
            self.eat('}')
            return out
        if v == '[':
            self.eat()
            out = {}
            while self.peek()[1] != ']':
                key = self.eat()[1]
                self.eat('|->')
                out[key] = self.value()
                if self.peek()[1] == ',':
                    self.eat()
            self.eat(']')
            return out
        if v == '(':
            self.eat()
            out = {}
            while self.peek()[1] != ')':
                key = self.value()
                self.eat(':>')
                out[key if isinstance(key, (str, int)) else repr(key)] = self.value()
                if self.peek()[1] == '@@':
                    self.eat()
            self.eat(')')
            return out
        raise ValueError(f'unexpected token {v!r}')


def parse_value(text):
    p = _P(tokenize(text))
    v = p.value()
    if p.i != len(p.t):
        raise ValueError('trailing tokens in TLA value')
    return v


def parse_state(block):
    """'/\\ x = v /\\ y = w ...' -> {x: v, y: w}"""
    parts = re.split(r'^/\\ ', block.strip(), flags=re.M)
    st = {}
    for part in parts:
        part = part.strip()
        if not part:
            continue
        name, _, val = part.partition('=')
        st[name.strip()] = parse_value(val.strip())
    return st


def parse_trace_file(text):
    """A `-simulate file=` trace module -> [(action_header, state dict)]"""
    out = []
    for m in re.finditer(r'\\\* <([^\n]*)>\nSTATE_\d+ ==\s*\n(.*?)(?=\n\n\\\* <|\n=+\s*$|\Z)', text, re.S):
        out.append((m.group(1), parse_state(m.group(2))))
    return out
