"""Binding of specs/Naming.tla: TLC enumerates class descriptors and prints slug / group / name; the classes are
created for real (own modules registered in sys.modules) and compared through the class properties, a chain and
Task.path."""
import shutil
import sys
import types
from pathlib import Path

from .core import scratch
from .procs import pmap
from .tlc import account, run_tlc, tla

WORDS = [['train'], ['train', 'model'], ['train', 'task'], ['task'], ['my', 'task', 'task'], ['a', 'b', 'task'],
         ['model2', 'task']]
METANAMES = [[], ['custom'], ['g_x']]
METAGROUPS = [[], ['grp'], ['grp:sub']]
KINDS = ['plain', 'module', 'double']
MODULES = [['vnmod'], ['vnpkg', 'vnmod'], ['vna', 'vnpkg', 'vnmod2']]
BASES = [dict(words=['base', 'task'], name=n, group=g, kind=k, module=m, via='own')
         for n in ([], ['custom']) for g in ([], ['grp']) for k in KINDS for m in (['vnmod'], ['vnpkg', 'vnfeat'])]
CHILDREN = [dict(words=w, own=own, name=n, group=g, module=m)
            for w in (['child', 'task'], ['kid'])
            for own, n, g in ((False, [], []), (True, [], []), (True, ['kidname'], ['kg']))
            for m in (['vnpkg', 'vnother'], ['vnmod'])]


def _rec(d):
    def seq(x):
        return '<<' + ', '.join(tla(e) for e in x) + '>>'
    parts = []
    for k, v in d.items():
        parts.append(f'{k} |-> ' + (seq(v) if isinstance(v, list) else tla(v)))
    return '[' + ', '.join(parts) + ']'


def mc():
    def seqset(xs):
        return '{' + ', '.join('<<' + ', '.join(tla(e) for e in x) + '>>' for x in xs) + '}'
    mod = ('---- MODULE MCNaming ----\nEXTENDS Naming\n'
           f'c_Words == {seqset(WORDS)}\nc_MetaNames == {seqset(METANAMES)}\nc_MetaGroups == {seqset(METAGROUPS)}\n'
           f'c_Kinds == {tla(set(KINDS))}\nc_Modules == {seqset(MODULES)}\n'
           f"c_BaseMenu == {{{', '.join(_rec(b) for b in BASES)}}}\nc_ChildMenu == {{{', '.join(_rec(c) for c in CHILDREN)}}}\n====\n")
    cfg = ('CONSTANTS\n  Words <- c_Words\n  MetaNames <- c_MetaNames\n  MetaGroups <- c_MetaGroups\n  Kinds <- c_Kinds\n'
           '  Modules <- c_Modules\n  BaseMenu <- c_BaseMenu\n  ChildMenu <- c_ChildMenu\n  Emit = TRUE\n'
           'INIT Init\nNEXT Next\nINVARIANT ModuleGroupIsOwn\nINVARIANT NameNonEmpty\nINVARIANT EmitCase\n')
    return mod, cfg


def _module(path):
    name = '.'.join(path)
    for i in range(1, len(path) + 1):
        n = '.'.join(path[:i])
        if n not in sys.modules:
            sys.modules[n] = types.ModuleType(n)
    return sys.modules[name]


_counter = [0]


def _make(desc, base_cls=None, own=True):
    """a real class for a descriptor (fresh class objects on every call)"""
    from taskchain.task import DoubleModuleTask, ModuleTask, Task

    def run(self) -> dict:
        return {}
    attrs = {'__module__': '.'.join(desc['module']), 'run': run}
    if own and (desc['name'] or desc['group'] or base_cls is not None):
        meta = {}
        if desc['name']:
            meta['name'] = desc['name'][0]
        if desc['group']:
            meta['task_group'] = desc['group'][0]
        if desc.get('via') == 'basemeta' and meta:
            attrs['Meta'] = type('Meta', (type('CommonMeta', (), meta),), {})     # class Meta(CommonMeta): pass
        else:
            attrs['Meta'] = type('Meta', (), meta)
    root = {'plain': Task, 'module': ModuleTask, 'double': DoubleModuleTask}[desc['kind']]
    clsname = ''.join(w.capitalize() for w in desc['words'])
    cls = type(root)(clsname, (base_cls or root,), attrs)
    _counter[0] += 1
    alias = f'{clsname}_{_counter[0]}'
    setattr(_module(desc['module']), alias, cls)
    return cls, f"{'.'.join(desc['module'])}.{alias}"


def _batch(job):
    cases, = job
    from taskchain import Config

    bad = []
    root = scratch(f'naming-{__import__("os").getpid()}')
    try:
        for ci, c in enumerate(cases):
            d = c['cls']
            for d_ in [d] + list(c['base']):
                for k in ('name', 'group', 'words', 'module'):
                    if not isinstance(d_[k], list):
                        d_[k] = list(d_[k])
            label = (f"class {''.join(w.capitalize() for w in d['words'])} in module {'.'.join(d['module'])} "
                     f"({d['kind']}; Meta name {d['name'] or None}, group {d['group'] or None}{', declared in a base Meta class' if d.get('via') == 'basemeta' else ''}"
                     + (f"; derived from {''.join(w.capitalize() for w in c['base'][0]['words'])} in "
                        f"{'.'.join(c['base'][0]['module'])}, {'own Meta' if c['own'] else 'inherited Meta'}" if c['base'] else '') + ')')
            orders = ('base-first', 'sub-first') if c['base'] else ('only',)
            for order in orders:
                if c['base']:
                    bcls, _ = _make(c['base'][0])
                    cls, path = _make(d, base_cls=bcls, own=c['own'])
                    if order == 'base-first':
                        _ = (bcls.slugname, bcls.group)
                else:
                    cls, path = _make(d)
                got = (cls.slugname, cls.group)
                if got != (c['slug'], c['group']):
                    bad.append((f"naming:{d['kind']}:{order}", f'{label}, {order}: slug / group are {got}, the 1.4.0 scheme '
                                                               f"gives {(c['slug'], c['group'])}"))
                    continue
                if c['base'] and (bcls.slugname != c['baseslug']):
                    bad.append((f"naming:base:{order}", f'{label}, {order}: the base class is now called {bcls.slugname!r}, '
                                                        f"the scheme gives {c['baseslug']!r}"))
                    continue
                if order != orders[0]:
                    continue
                base = root / f'd{ci}'
                chain = Config(base, name='nm', data={'tasks': [path]}).chain()
                names = list(chain.tasks)
                want_dir = base / Path(*c['slug'].split(':'))
                if names != [c['slug']]:
                    bad.append(('naming:chain', f"{label}: the chain registers it as {names}, the scheme gives {c['slug']!r}"))
                elif Path(chain[c['slug']].path) != want_dir or Path(chain[c['slug']].data_path).parent != want_dir:
                    bad.append(('naming:dir', f"{label}: results live in {chain[c['slug']].path}, the scheme gives {want_dir}"))
    finally:
        shutil.rmtree(root, ignore_errors=True)
    return bad


def run(ctx):
    mod, cfg = mc()
    res = run_tlc('MCNaming', cfg_text=cfg, extra_files={'MCNaming.tla': mod}, workers=4, timeout=600)
    account(ctx, res, 'Naming: every class descriptor of the menu (own / inherited Meta, Task / ModuleTask / '
                      'DoubleModuleTask, module paths): ModuleGroupIsOwn, NameNonEmpty')
    cases = res.by_tag('Nm')
    n = 60
    out = pmap(_batch, [(cases[i:i + n],) for i in range(0, len(cases), n)])
    ctx.traces += len(cases)
    ctx.extra['naming_cases'] = len(cases)
    for c in cases:
        ctx.case('naming|' + c['slug'] + '|' + ''.join(c['cls']['words']) + '|' + '.'.join(c['cls']['module']) + c['cls']['kind'],
                 nontrivial=bool(c['base']))
    for bad in out:
        for sig, text in bad:
            ctx.report(sig, text)
