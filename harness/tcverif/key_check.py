"""Binding of specs/KeyScheme.tla (C02, C03, C12).

TLC enumerates parameter values (tagged records) and prints, per case, the representation text and the key TREE of
every task of the module's pipeline.  The harness instantiates H = sha256(.)[:32], builds the real chain in many
computation-preserving ways (C02) and compares keys, paths and side files (C12), and groups representations to find
distinct values sharing one (C03)."""
import copy
import hashlib
import json
import re
import os
import random
import shutil
import sys
from pathlib import Path

from . import gen
from .core import MachineryError, scratch
from .procs import pmap
from .tlc import account, run_tlc, tla_str

MODULE = 'vgen.keys'

# --------------------------------------------------------------------------- value menus
LIT = {'None': None, 'True': True, 'False': False}
# TLC reads ASCII only: characters outside it are spelled <U+XXXX> in the specification's constants and replaced by the
# real characters when the cases come back (dealias).  Pairs that unicode normalisation / case folding would conflate.
ATOM_STRINGS = ['', 'a', 'b', '1', 'None', 'True', "a', 'b", "'", "a###b='c", 'x$$$y', '[1]', 'a"b', 'a\\b', '{A}',
                'long' * 300 + 'A', 'long' * 300 + 'B',
                'm<U+00B2>', 'm2', '<U+FB01>', 'fi', '<U+00E9>', 'e<U+0301>', 'A', 'a ']
ATOM_INTS = [0, 1, -1, 10]
ATOM_FLOATS = ['1.0', '0.5', '-0.0', '1e+16', '0.0001234567', '0.0001234568', '0.9999995', '0.9999999', '1e-11', '2e-11']
SMALL = [('lit', 'None'), ('int', 1), ('str', 'a'), ('str', "a', 'b"), ('str', 'b')]
DICT_KEYS = sorted(['a', "a': 1, 'b", 'b'])
QUOTE_KEYS = [k for k in DICT_KEYS if "'" in k]


def atom_tla(kind, v):
    if kind == 'lit':
        return f'[t |-> "lit", v |-> "{v}"]'
    if kind == 'int':
        return f'[t |-> "int", v |-> {v}]'
    if kind == 'flt':
        return f'[t |-> "flt", v |-> "{v}"]'
    if kind == 'str':
        return f'[t |-> "str", v |-> {tla_str(v)}, q |-> {"TRUE" if ("\'" in v) else "FALSE"}]'
    raise ValueError(kind)


OBJECTS = (
    [('auto', ('KAuto', [('a', a), ('b', b)])) for a in (('int', 1), ('int', 2), ('str', 'p'), ('list', [('int', 1), ('int', 2)]),
                                                         ('list', [('int', 2), ('int', 1)]), ('list', [('list', [('int', 1)])]))
     for b in (('int', 2), ('int', 3))]
    + [('auto', ('KAutoSub', [('a', ('int', 1)), ('b', ('int', 2)), ('c', c)])) for c in (('int', 5), ('int', 6))]
    # an object that forwards **kwargs to its base class and keeps them (repr: KAutoKw(kwargs={...}, n=1)) ...
    + [('auto', ('KAutoKw', [('kwargs', ('dict', kw)), ('n', ('int', 1))])) for kw in ([], [('b', ('int', 3))], [('b', ('int', 4))])]
    # ... and one that keeps an argument as self._b while a property b shows something else (1.4.0 reads _b first)
    + [('auto', ('KAutoBoth', [('a', ('int', 1)), ('b', b)])) for b in (('int', 2), ('int', 3))]
    + [('inst', ('KPlain', [('int', 1)], [])), ('inst', ('KPlain', [('int', 2)], [])),
       ('inst', ('KPlain', [], [('k', ('int', 1))])), ('inst', ('KPlain', [], [('k', ('int', 2))])),
       ('inst', ('KPlain', [('str', 'p')], [('k', ('list', [('int', 1)]))])),
       ('inst', ('KPlain', [], [('k', ('int', 1)), ('j', ('int', 1))]))]
)
NESTED = [
    ('list', [('auto', ('KAuto', [('a', ('int', 1)), ('b', ('int', 2))]))]),
    ('list', [('auto', ('KAuto', [('a', ('int', 1)), ('b', ('int', 3))])), ('int', 1)]),
    ('dict', [('a', ('auto', ('KAuto', [('a', ('str', 'p')), ('b', ('int', 2))])))]),
]
RSTRS = [('rstr', '{A}/x'), ('rstr', 'pre{A}{B}'), ('rstr', '{B}')]


def rec_tla(x):
    """tagged value (Python tuple form) -> TLA+ record text"""
    kind, v = x
    if kind == 'rstr':
        return f'[t |-> "rstr", v |-> {tla_str(v)}]'
    if kind == 'auto':
        cls, args = v
        return (f'[t |-> "auto", cls |-> "{cls}", args |-> <<' +
                ', '.join(f'<<"{n}", {rec_tla(a)}>>' for n, a in sorted(args)) + '>>]')
    if kind == 'inst':
        cls, args, kwargs = v
        return (f'[t |-> "inst", cls |-> "{MODULE}.{cls}", args |-> <<' + ', '.join(rec_tla(a) for a in args) +
                '>>, kwargs |-> <<' + ', '.join(f'<<"{n}", {rec_tla(a)}>>' for n, a in kwargs) + '>>]')
    if kind in ('lit', 'int', 'flt', 'str'):
        return atom_tla(kind, v)
    if kind == 'list':
        return '[t |-> "list", v |-> <<' + ', '.join(rec_tla(e) for e in v) + '>>]'
    if kind == 'dict':
        return '[t |-> "dict", v |-> <<' + ', '.join(f'<<{tla_str(k)}, {rec_tla(e)}>>' for k, e in v) + '>>]'
    raise ValueError(kind)


def _containers(S):
    out = [('list', [])] + [('list', [a]) for a in S] + [('list', [a, b]) for a in S for b in S]
    out += [('dict', [])] + [('dict', [(k, a)]) for k in DICT_KEYS for a in S]
    out += [('dict', [(DICT_KEYS[i], a), (DICT_KEYS[j], b)]) for i in range(len(DICT_KEYS))
            for j in range(i + 1, len(DICT_KEYS)) for a in S for b in S]
    return out


def universe(depth):
    """The value grammar: atoms; lists and string-keyed mappings (keys in Python's sort order) of length <= 2 over the
    atoms; at depth 2 the same containers over the depth-1 values of the SMALL atom set.  Small atoms come first."""
    full = ([('lit', k) for k in LIT] + [('int', i) for i in ATOM_INTS] + [('flt', f) for f in ATOM_FLOATS]
            + [('str', s) for s in ATOM_STRINGS])
    vals = list(SMALL) + _containers(SMALL) + [a for a in full if a not in SMALL]
    vals += RSTRS + OBJECTS + NESTED
    seen0 = {repr(v) for v in vals}
    vals += [c for c in _containers(full) if repr(c) not in seen0]
    if depth >= 2:
        small1 = list(SMALL) + _containers(SMALL)
        seen = {repr(v) for v in vals}
        for c in _containers(small1):
            if repr(c) not in seen:
                vals.append(c)
    return vals


def constants(depth):
    vals = universe(depth)
    return {
        'Vals': '<<' + ',\n  '.join(rec_tla(v) for v in vals) + '>>',
        'QuoteKeys': '{' + ', '.join(tla_str(k) for k in QUOTE_KEYS) + '}',
    }, len(vals)


_ALIAS = re.compile(r'<U\+([0-9A-F]{4})>')


def dealias(v):
    """every string of a structure returned by TLC: <U+XXXX> -> the character"""
    if isinstance(v, str):
        return _ALIAS.sub(lambda m: chr(int(m.group(1), 16)), v)
    if isinstance(v, list):
        return [dealias(e) for e in v]
    if isinstance(v, dict):
        return {dealias(k): dealias(e) for k, e in v.items()}
    return v


def to_py(x):
    """tagged record (from TLC's JSON) -> Python value"""
    t = x['t']
    if t == 'lit':
        return LIT[x['v']]
    if t == 'int':
        return x['v']
    if t == 'flt':
        return float(x['v'])
    if t in ('str', 'rstr'):
        return x['v']
    if t == 'list':
        return [to_py(e) for e in x['v']]
    if t == 'dict':
        return {k: to_py(v) for k, v in x['v']}
    if t == 'auto':
        kw = {n: to_py(a) for n, a in x['args']}
        if x['cls'] == 'KAutoKw':       # the forwarded keyword arguments are written flat in the definition
            kw = {**{k: v for k, v in kw.items() if k != 'kwargs'}, **kw.get('kwargs', {})}
        return {'class': f'{MODULE}.{x["cls"]}', 'kwargs': kw}
    if t == 'inst':
        return {'class': x['cls'], 'args': [to_py(a) for a in x['args']], 'kwargs': {n: to_py(a) for n, a in x['kwargs']}}
    raise ValueError(t)


def canon(x):
    """type-exact canonical text of a Python value (to decide whether two values are equal as JSON-like values)"""
    if isinstance(x, bool) or x is None:
        return repr(x)
    if isinstance(x, int):
        return f'i{x}'
    if isinstance(x, float):
        return f'f{x!r}'
    if isinstance(x, str):
        return 's' + json.dumps(x)
    if isinstance(x, list):
        return '[' + ','.join(canon(e) for e in x) + ']'
    if isinstance(x, dict):
        return '{' + ','.join(json.dumps(k) + ':' + canon(v) for k, v in sorted(x.items())) + '}'
    raise ValueError(type(x))


# --------------------------------------------------------------------------- H and the key tree
def H(text):
    return hashlib.sha256(text.encode()).hexdigest()[:32]


def key_of(tree):
    ins = '###'.join(f"{i['name']}={key_of(i['key'])}" for i in tree['inputs'])
    return H(f"{tree['params']}$$${ins}")


# --------------------------------------------------------------------------- the pipeline of the module
SPECS = [
    dict(slug='a', cls_name='KaTask', params=[dict(name='x')], run_params=['x'], kind='json'),
    dict(slug='g:b', cls_name='KbTask', kind='numpy',
         params=[dict(name='y', default=5), dict(name='z', default=1, dpd=True), dict(name='v', default=0, ignore=True)],
         run_params=['y', 'z', 'v'], inputs=[dict(ref='a', how='class')], pulls=['a'], input_kinds={'a': 'json'}),
    dict(slug='h:g:c', cls_name='KcTask', kind='pandas', inputs=[dict(ref='g:b', how='class'), dict(ref='a', how='name')],
         pulls=['b', 'a'], input_kinds={'a': 'json', 'b': 'numpy'}),
    dict(slug='d', cls_name='KdTask', kind='dir', inputs=[dict(ref='a', how='class')], pulls=['a'],
         input_kinds={'a': 'json'}),
    dict(slug='a2', cls_name='Ka2Task', kind='json'),
    dict(slug='e', cls_name='KeTask', kind='json', inputs=[dict(ref='a2', how='class'), dict(ref='a', how='class')],
         pulls=['a', 'a2'], input_kinds={'a': 'json', 'a2': 'json'}),
    dict(slug='f', cls_name='KfTask', kind='json',
         params=[dict(name='z', default=1, dpd=True), dict(name='v', default=0, ignore=True)], run_params=['z', 'v']),
    dict(slug='h', cls_name='KhTask', kind='json', params=[dict(name='s', dtype='str'), dict(name='pth', dtype='path')],
         run_params=['s', 'pth']),
    dict(slug='m', cls_name='KmTask', kind='mem', inputs=[dict(ref='a', how='class')], pulls=['a'], input_kinds={'a': 'json'}),
    dict(slug='n', cls_name='KnTask', kind='json', inputs=[dict(ref='m', how='class')], pulls=['m'], input_kinds={'m': 'mem'}),
]
TASKNAME = {'a': 'a', 'a2': 'a2', 'b': 'g:b', 'c': 'h:g:c', 'd': 'd', 'e': 'e', 'f': 'f', 'h': 'h', 'm': 'm', 'n': 'n'}


def module():
    if MODULE in sys.modules:
        return sys.modules[MODULE]
    mod = gen.make_module(json.loads(json.dumps(SPECS)), MODULE)
    from taskchain.parameter import AutoParameterObject

    class KAuto(AutoParameterObject):
        def __init__(self, a, b=2, verbose=False):
            self.a, self._b, self.verbose = a, b, verbose

    class KAutoSub(KAuto):
        def __init__(self, a, b=2, c=5, verbose=False):
            super().__init__(a, b, verbose)
            self.c = c

    class KAutoKw(KAuto):
        def __init__(self, n, **kwargs):
            super().__init__(n, **kwargs)
            self.n, self.kwargs = n, kwargs

    class KAutoBoth(AutoParameterObject):
        def __init__(self, a, b=2):
            self.a, self._b = a, b

        @property
        def b(self):
            return self._b * 100

    class KAutoSet(AutoParameterObject):
        def __init__(self, s):
            self.s = set(s)

    class KPlain:
        def __init__(self, *args, **kwargs):
            self.args, self.kwargs = args, kwargs

    for c in (KAuto, KAutoSub, KAutoKw, KAutoBoth, KAutoSet, KPlain):
        c.__module__ = MODULE
        setattr(mod, c.__name__, c)
    return mod


STRINGS = [f'{MODULE}.K{t}Task' for t in ('a', 'b', 'c', 'd', 'a2', 'e', 'f', 'h', 'm', 'n')]


def realise(variant, x, yv, zv, base, work, rng, global_vars=None):
    """Build the chain of the case in one of the computation-preserving ways; returns (chain, namespace prefix)."""
    import yaml

    from taskchain import Config

    work.mkdir(parents=True, exist_ok=True)
    vals = {'x': x, 's': '{A}/s', 'pth': '{A}/p'}
    if yv != 5 or rng.random() < 0.5:
        vals['y'] = yv
    if zv != 1 or rng.random() < 0.5:
        vals['z'] = zv
    if rng.random() < 0.5:
        vals['v'] = rng.choice([0, 3, 'whatever'])
    tasks = list(STRINGS)
    if global_vars is None and rng.random() < 0.7:
        global_vars = rng.choice([{'A': 'p', 'B': 'q'}, {'A': '/some/dir', 'B': 7}, type('GV', (), {'A': 'obj', 'B': 'x'})()])
    kw = {'global_vars': global_vars} if global_vars is not None else {}
    vals = copy.deepcopy(vals)  # every realisation owns its data (a deep copy: mapping keys keep their types)
    if variant == 'dict':
        mod = module()
        return Config(base, name='cfg', data={'tasks': [getattr(mod, s.split('.')[-1]) for s in tasks], **vals}, **kw
                      ).chain(), ''
    if variant in ('file', 'renamed', 'yaml', 'permuted'):
        if variant == 'permuted':
            rng.shuffle(tasks)
            vals = dict(rng.sample(list(vals.items()), len(vals)))
            if isinstance(x, dict):
                vals['x'] = dict(reversed(list(x.items())))
        name = {'file': 'cfg', 'renamed': f'other_{rng.randrange(1000)}', 'yaml': 'cfg', 'permuted': 'perm'}[variant]
        doc = {'tasks': tasks, **vals} if variant != 'permuted' else {**vals, 'tasks': tasks}
        if variant == 'yaml':
            p = work / f'{name}.yaml'
            p.write_text(yaml.safe_dump(doc, sort_keys=False))
        else:
            sub = work / ('deep/er' if variant == 'renamed' else '.')
            sub.mkdir(parents=True, exist_ok=True)
            p = sub / f'{name}.json'
            p.write_text(json.dumps(doc))
        return Config(base, p, **kw).chain(), ''
    if variant in ('ns', 'nested', 'twice'):
        p = work / 'pipe.json'
        p.write_text(json.dumps({'tasks': tasks, **vals}))
        if variant == 'ns':
            root = {'uses': [f'{p} as n']}
            pre = 'n::'
        elif variant == 'twice':
            root = {'uses': [f'{p} as n', f'{p} as other']}
            pre = 'other::'
        else:
            mid = work / 'mid.json'
            mid.write_text(json.dumps({'uses': [f'{p} as n']}))
            root = {'uses': [f'{mid} as m']}
            pre = 'm::n::'
        r = work / 'root.json'
        r.write_text(json.dumps(root))
        return Config(base, r, **kw).chain(), pre
    if variant == 'ctxuses':
        # the value comes from a context that itself uses another context
        p = work / 'pipe.json'
        rest = {k: v for k, v in vals.items() if k != 'x'}
        p.write_text(json.dumps({'tasks': tasks, **rest}))
        c2 = work / 'ctx2.json'
        c2.write_text(json.dumps({'unrelated': '{A}-1'}))
        return Config(base, p, context={'x': x, 'uses': [f'{c2} as zz']}, **kw).chain(), ''
    if variant in ('context', 'ctxfile', 'ctxns'):
        p = work / 'pipe.json'
        rest = {k: v for k, v in vals.items() if k != 'x'}
        p.write_text(json.dumps({'tasks': tasks, **rest, **({'x': 'overridden'} if rng.random() < 0.5 else {})}))
        if variant == 'context':
            return Config(base, p, context={'x': x}, **kw).chain(), ''
        if variant == 'ctxfile':
            c = work / 'ctx.json'
            c.write_text(json.dumps({'x': x}))
            return Config(base, p, context=[{'x': 'first'}, c], **kw).chain(), ''
        r = work / 'root.json'
        r.write_text(json.dumps({'uses': [f'{p} as n']}))
        return Config(base, r, context={'for_namespaces': {'n': {'x': x}}}, **kw).chain(), 'n::'
    raise ValueError(variant)


def realise_xns(mount, x, base, work):
    """outer config with task o (input 'xn::a') and cmp (inputs 'p1::a', 'p2::a'), mounted under `mount` (or not)."""
    from taskchain import Config, Task

    mod = module()
    if not hasattr(mod, 'KoTask'):
        def run_o(self) -> dict:
            return {}
        for name, ins in (('o', ['xn::a']), ('cmp', ['p1::a', 'p2::a']), ('cmpr', ['p2::a', 'p1::a'])):
            cls = type(Task)(f'K{name}Task', (Task,), {'Meta': type('Meta', (), {'name': name if name != 'cmpr' else 'cmp',
                                                                               'input_tasks': ins}),
                                                     'run': run_o, '__module__': MODULE})
            setattr(mod, f'K{name}Task', cls)
    work.mkdir(parents=True, exist_ok=True)
    (work / 'inner.json').write_text(json.dumps({'tasks': [f'{MODULE}.KaTask'], 'x': x}))
    (work / 'p.json').write_text(json.dumps({'tasks': [f'{MODULE}.KaTask'], 'x': x}))
    (work / 'q.json').write_text(json.dumps({'tasks': [f'{MODULE}.KaTask'], 'x': 1}))
    outs = {}
    for order, (f1, f2) in (('cmp12', ('p', 'q')), ('cmp21', ('q', 'p'))):
        outer = work / f'outer_{order}.json'
        outer.write_text(json.dumps({'tasks': [f'{MODULE}.KoTask', f'{MODULE}.KcmpTask'],
                                     'uses': [f'{work}/inner.json as xn', f'{work}/{f1}.json as p1', f'{work}/{f2}.json as p2']}))
        if mount:
            root = work / f'root_{order}.json'
            root.write_text(json.dumps({'uses': [f'{outer} as {mount}']}))
            chain = Config(base, root).chain()
            pre = mount + '::'
        else:
            chain = Config(base, outer).chain()
            pre = ''
        outs[order] = chain[pre + 'cmp'].name_for_persistence
        outs['o'] = chain[pre + 'o'].name_for_persistence
    return outs


XNS_MOUNTS = [None, 'n', 'xn', 'zzxn', 'p1', 'a']

VARIANTS = ['dict', 'file', 'renamed', 'yaml', 'permuted', 'ns', 'nested', 'twice', 'context', 'ctxfile', 'ctxns', 'ctxuses']
EXT_SIDE = ['.run_info.yaml', '.log']


def observe(job):
    """One TLC case on the real code.  Returns [(category, sig, text)]."""
    idx, case, variants, seed = job
    want_xns = 'xns' in variants or 'ctxuses' in variants
    variants = [v for v in variants if v != 'xns']
    module()
    rng = random.Random(seed * 7919 + idx)
    root = scratch(f'keys-{os.getpid()}') / f'k{idx}'
    bad = []
    info = {}
    try:
        x = to_py(case['va'])
        from taskchain.utils.clazz import repr_from_instantiation

        # (1) translation check spec <-> code on the representation text (plain JSON-like values only:
        #     objects and placeholder strings get their representation inside a config)
        plain = case['va']['t'] not in ('auto', 'inst', 'rstr') and '"class"' not in json.dumps(x)
        code_repr = repr_from_instantiation(x) if plain else case['repr']
        if code_repr != case['repr']:
            bad.append(('scheme', f'repr:{case["repr"][:50]}',
                        f'value {x!r}: representation is {code_repr!r}, the 1.4.0 scheme gives {case["repr"]!r}'))
        want = {t: key_of(case['keys'][t]) for t in case['keys']}
        if case['va']['t'] == 'auto' and case['va']['cls'] == 'KAutoSub':
            # the parent class is used first in this process (representations must not depend on what was built before)
            realise('file', {'class': f'{MODULE}.KAuto', 'kwargs': {'a': 1}}, 5, 1, root / 'warm', root / 'wwarm', rng)
        for vi, variant in enumerate(variants):
            base = root / f'data{vi}'
            chain, pre = realise(variant, x, case['yv'], case['zv'], base, root / f'w{vi}', rng)
            for t, name in TASKNAME.items():
                task = chain[pre + name]
                got = task.name_for_persistence
                if vi == 0:
                    info.setdefault('keys', {})[t] = got
                    info['code_repr'] = code_repr
                reldir = Path(*case['dirs'][t])
                exp_path = base / reldir / (want[t] + case['exts'][t])
                if case['exts'][t] == 'none':   # in-memory: has a key (it enters downstream keys) but no location
                    if got != want[t]:
                        bad.append(('scheme' if variant == 'dict' else 'rewrite', f'rewrite:{variant}:{t}',
                                    f'[{variant}] key of in-memory {name} is {got}, the scheme gives {want[t]}'))
                    continue
                if got != want[t]:
                    cat = 'scheme' if variant == 'dict' else 'rewrite'
                    bad.append((cat, f'{cat}:{variant}:{t}',
                                f'[{variant}] key of {name} is {got}, the scheme gives {want[t]} '
                                f'(x={x!r}, y={case["yv"]}, z={case["zv"]})'))
                elif Path(task.data_path) != exp_path:
                    bad.append(('layout', f'layout:{variant}:{t}', f'[{variant}] {name} is stored at '
                                f'{Path(task.data_path).relative_to(base)}, the layout gives {exp_path.relative_to(base)}'))
                else:
                    d = task._data_without_value
                    sides = [Path(d.run_info_path).name, Path(d.log_path).name]
                    if sides != [want[t] + e for e in EXT_SIDE]:
                        bad.append(('layout', f'side:{t}', f'side files of {name} are {sides}'))
        if case.get('xns') and want_xns and case['va']['t'] not in ('auto', 'inst') and idx % 7 == 0:
            wantx = {k: key_of(v) for k, v in case['xns'].items()}
            for mi, mount in enumerate(XNS_MOUNTS):
                try:
                    got = realise_xns(mount, x, root / f'xd{mi}', root / f'xw{mi}')
                except Exception as e:  # noqa
                    bad.append(('rewrite', 'rewrite:xns-construct:' + ('same-as-inner-namespace' if mount in ('xn', 'p1', 'p2') else str(mount)),
                                f'mounting a pipeline whose task reads '
                                f"'xn::a' under namespace {mount!r} fails: {type(e).__name__}: {e}"))
                    continue
                for k in wantx:
                    if got[k] != wantx[k]:
                        bad.append(('rewrite', f'rewrite:xns:{mount}:{k}', f'[mounted as {mount!r}] key of {k} (inputs from '
                                    f'namespaces below its own) is {got[k]}, the scheme gives {wantx[k]} (x={x!r})'))
            info['xns'] = wantx
    except Exception as e:  # noqa
        import traceback

        bad.append(('harness', 'harness', f'{type(e).__name__}: {e}\n{traceback.format_exc()[-900:]}'))
    finally:
        shutil.rmtree(root, ignore_errors=True)
    return idx, bad, info


def mc(depth, emit=True):
    c, n = constants(depth)
    text = '---- MODULE MCKeys ----\nEXTENDS KeyScheme\n' + '\n'.join(f'c_{k} == {v}' for k, v in c.items()) + '\n====\n'
    cfg = ('CONSTANTS\n' + '\n'.join(f'  {k} <- c_{k}' for k in c) + f'\n  NSmall = {len(SMALL)}\n'
           f'  Emit = {"TRUE" if emit else "FALSE"}\n'
           'INIT Init\nNEXT Next\nINVARIANT IgnoredAbsent\nINVARIANT DefaultAbsent\nINVARIANT ChainHash\n'
           'INVARIANT NoParamsIsNone\nINVARIANT SwapDiffers\n'
           'INVARIANT EmitCase\n')
    return text, cfg


def mc_pairs(invariant, npair):
    c, n = constants(1)
    text = '---- MODULE MCKeyPairs ----\nEXTENDS KeyPairs\n' + '\n'.join(f'c_{k} == {v}' for k, v in c.items()) + '\n====\n'
    cfg = ('CONSTANTS\n' + '\n'.join(f'  {k} <- c_{k}' for k in c) + f'\n  NSmall = {len(SMALL)}\n  NPair = {min(npair, n)}\n'
           f'  Emit = FALSE\nINIT Init2\nNEXT Next2\nINVARIANT {invariant}\n')
    return text, cfg


def enumerate_cases(ctx, depth):
    text, cfg = mc(depth)
    res = run_tlc('MCKeys', cfg_text=cfg, extra_files={'MCKeys.tla': text}, workers=8, timeout=3000, heap='8g')
    account(ctx, res, f'KeyScheme: parameter values of depth <= {depth} x (y, z) variations; IgnoredAbsent, '
                      f'DefaultAbsent, ChainHash on every case')
    cases = [dealias(c) for c in res.by_tag('K')]
    if not cases:
        raise MachineryError('KeyScheme produced no cases')
    return cases
