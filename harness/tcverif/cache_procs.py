"""Free-running PROCESSES on one cache key (C15, code -> spec): no scheduler.  Every process records one event per label
of specs/Cache.tla in a shared append-only log WHILE IT HOLDS the lock that protects the step, so the order of the log
is the order of the steps; the traces are validated against specs/CacheTrace.tla."""
import builtins
import json
import os
import pathlib
import random
import signal
import time

import taskchain.cache as tcache

from .cache_sched import FACTORY, ComputeFailed, same_value, value_of


class _Log:
    def __init__(self, path, c, rng):
        self.fd = os.open(path, os.O_WRONLY | os.O_APPEND | os.O_CREAT)
        self.c, self.rng = c, rng

    def ev(self, kind, *arg):
        os.write(self.fd, (json.dumps([self.c, kind] + list(arg)) + '\n').encode())

    def pause(self):
        """outside the lock (before an acquisition, after a release): vary where the processes meet"""
        d = self.rng.choice((0, 0, 0.0005, 0.001, 0.002, 0.004))
        if d:
            time.sleep(d)


def _install(log, cache_file):
    """wrappers around the operations other processes can observe; events are written under the cache's lock"""
    o_lock, o_exists, o_popen, o_bopen = tcache.FileLock, pathlib.Path.exists, pathlib.Path.open, builtins.open

    class LogLock(o_lock):
        def acquire(self, *a, **k):
            log.pause()
            r = super().acquire(*a, **k)
            log.ev('acq')            # after the acquisition: the lock is held
            return r

        def release(self, force=False):
            held = self.is_locked
            if held:
                log.ev('rel')        # before the release: the lock is still held
            r = super().release(force)
            if held:
                log.pause()
            return r

    class Reader:
        def __init__(self, f):
            self.f = f

        def read(self, *a):
            log.ev('rd')
            return self.f.read(*a)

        def readline(self, *a):
            log.ev('rd')
            return self.f.readline(*a)

        def readinto(self, b):
            log.ev('rd')
            return self.f.readinto(b)

        def __enter__(self):
            return self

        def __exit__(self, *a):
            self.f.close()

        def __getattr__(self, n):
            return getattr(self.f, n)

    class Writer:
        def __init__(self, f):
            self.f = f

        def write(self, data):
            h = len(data) // 2
            log.ev('wr')
            self.f.write(data[:h])
            self.f.flush()
            log.ev('wr')
            self.f.write(data[h:])
            self.f.flush()
            return len(data)

        def __enter__(self):
            return self

        def __exit__(self, *a):
            self.close()

        def close(self):
            if not self.f.closed:
                log.ev('cls')
            self.f.close()

        def __getattr__(self, n):
            return getattr(self.f, n)

    def wrap_open(orig):
        def open_(file, mode='r', *a, **k):
            if isinstance(file, (str, os.PathLike)) and os.fspath(file) == cache_file:
                if 'r' in mode and '+' not in mode:
                    log.ev('opnr')
                    return Reader(orig(file, mode, *a, **k))
                log.ev('opnw')
                return Writer(orig(file, mode, *a, **k))
            return orig(file, mode, *a, **k)
        return open_

    def exists(p, *a, **k):
        r = o_exists(p, *a, **k)
        if str(p) == cache_file:
            log.ev('chk', bool(r))
        return r

    tcache.FileLock = LogLock
    pathlib.Path.exists = exists
    pathlib.Path.open = wrap_open(o_popen)
    builtins.open = wrap_open(o_bopen)


def _child(c, op, fails, directory, key, kind, logpath, seed, gate_r):
    rng = random.Random(seed)
    cache = FACTORY[kind](directory)
    cache_file = str(cache.filepath(key))
    log = _Log(logpath, c, rng)
    _install(log, cache_file)
    os.read(gate_r, 1)   # all processes start together

    def computer():
        log.ev('comp')
        if fails:
            raise ComputeFailed(f'computation of caller {c} fails')
        return value_of(c, kind)

    try:
        if op == 'get':
            r = cache.get(key)
        else:
            r = cache.get_or_compute(key, computer, force=(op == 'force'))
        if r is tcache.NO_VALUE:
            log.ev('ret', 99)
        else:
            who = [w for w in range(0, 4) if same_value(kind, r, value_of(w, kind))]
            log.ev('ret', 100 + who[0] if who else -1, *([] if who else [str(r)[:80]]))
    except ComputeFailed:
        log.ev('ret', 98)
    except BaseException as e:  # noqa
        log.ev('ret', -2, f'{type(e).__name__}: {e}'[:200])
    os._exit(0)


def run_once(directory, ops, fails, present, kind, seed, key='the key'):
    """ops: {caller: op}.  Returns dict(ev=[...], hung=[...], final=...)"""
    directory = pathlib.Path(directory)
    directory.mkdir(parents=True, exist_ok=True)
    cache = FACTORY[kind](directory / 'cache')
    if present:
        cache.get_or_compute(key, lambda: value_of(0, kind))
    logpath = str(directory / 'events.log')
    open(logpath, 'w').close()
    gate_r, gate_w = os.pipe()
    pids = {}
    for c in sorted(ops):
        pid = os.fork()
        if pid == 0:
            os.close(gate_w)
            try:
                _child(c, ops[c], c in fails, directory / 'cache', key, kind, logpath, seed * 31 + c, gate_r)
            finally:
                os._exit(3)
        pids[c] = pid
    os.close(gate_r)
    os.write(gate_w, b'g' * len(pids))
    os.close(gate_w)
    hung = []
    t0 = time.time()
    left = dict(pids)
    while left and time.time() - t0 < 30:
        for c, pid in list(left.items()):
            r, _ = os.waitpid(pid, os.WNOHANG)
            if r:
                left.pop(c)
        if left:
            time.sleep(0.005)
    for c, pid in left.items():
        hung.append(c)
        try:
            os.kill(pid, signal.SIGKILL)
            os.waitpid(pid, 0)
        except OSError:
            pass
    ev = [json.loads(line) for line in open(logpath).read().splitlines() if line.strip()]
    final = None
    f = cache.filepath(key)
    if f.exists():
        try:
            v = cache.load_value(f, key)
            who = [w for w in range(0, 4) if same_value(kind, v, value_of(w, kind))]
            final = who[0] if who else -1
        except Exception as e:  # noqa
            final = f'unreadable: {type(e).__name__}'
    return dict(ev=ev, hung=hung, final=final)
