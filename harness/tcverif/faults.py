"""C05 machinery: record the file-operation protocol of computing+storing one result per data kind, abstract it for
specs/StoreSteps.tla, and replay every crash point / torn write / raising point on the real code."""
import json
import os
import shutil
import sys
from pathlib import Path

from . import gen
from .fsops import Recorder
from .procs import ChildCrashed, run_forked

KINDS = ['json', 'numpy', 'pandas', 'generated', 'lazy', 'listnpy', 'dir', 'continues', 'figure']
SIDE = ('.run_info.yaml', '.log', '.png', '.svg')   # (.png / .svg: renderings FigureData writes next to the pickled figure)


def module(kind):
    name = f'vgen.fault_{kind}'
    if name in sys.modules:
        return sys.modules[name]
    specs = [
        dict(slug='up', cls_name='UpTask', params=[dict(name='x')], run_params=['x'], kind='json'),
        dict(slug='g:t', cls_name='TTask', params=[dict(name='y', default=1)], run_params=['y'], kind=kind,
             inputs=[dict(ref='up', how='class')], pulls=['up'], input_kinds={'up': 'json'}),
    ]
    return gen.make_module(specs, name)


def ref(kind):
    return {'t': 'g:t', 'p': {'y': 1}, 'i': {'up': {'t': 'up', 'p': {'x': 3}, 'i': {}}}}


def build(kind, base):
    from taskchain import Config

    mod = module(kind)
    return Config(Path(base), name='cfg', data={'tasks': [mod.UpTask, mod.TTask], 'x': 3}).chain()


# --------------------------------------------------------------------------- one attempt in a child process
def attempt(kind, phase, fault, base, crash_at=None, exc_at=None, crash_after=None, retry=True):
    """Request the value of t once under the recorder.  Returns a dict (unless the process is made to die)."""
    chain = build(kind, base)
    t = chain['g:t']
    _ = chain['up'].value  # the input is computed beforehand: the protocol under study is t's own
    if phase == 'forced':
        t.force()
    final = str(t.data_path)
    rec = Recorder(str(Path(base)), crash_at=crash_at, exc_at=exc_at, crash_after=crash_after)
    rec.install()
    gen.CTRL['raise'] = None
    gen.CTRL['bad'] = {}
    gen.CTRL['gen'] = 3      # this attempt writes 4 padding arrays for list-of-array results, later ones fewer
    plan = json.dumps({'slug': 'g:t'})
    if fault in ('raise', 'interrupt'):
        gen.CTRL['raise'] = {'slug': 'g:t'}
        gen.CTRL['raise_base'] = fault == 'interrupt'   # KeyboardInterrupt: raises, but is not an Exception
    elif fault in ('mistyped', 'unserializable', 'genraise'):
        gen.CTRL['bad'] = {plan: fault}
    out = {'final': final, 'exc': None}
    out['init'] = {o: any(classify(str(q), final) == o for q in Path(final).parent.iterdir()) for o in ('tmp', 'err', 'old')}
    rec.active = True
    try:
        try:
            v = t.value
            out['value'] = _nogen(gen.decode(kind, v))
        except BaseException as e:  # noqa
            out['exc'] = f'{type(e).__name__}: {e}'[:200]
    finally:
        rec.finish()
        rec.uninstall()
    gen.CTRL['raise'] = None
    gen.CTRL['raise_base'] = False
    gen.CTRL['bad'] = {}
    out['ops'] = rec.ops
    out['snap'] = {k: (v if v is None else len(v)) for k, v in rec.snap.items()}
    out['snap_bytes'] = rec.snap
    out['listing'] = sorted(str(q.relative_to(base)) for q in Path(base).rglob('*'))
    # same-process retry after an exception: "requesting the value again always recovers"
    if out['exc'] is not None and retry:
        gen.RUNLOG.clear()
        gen.CTRL['gen'] = 4
        try:
            out['retry'] = _nogen(gen.decode(kind, t.value))
            out['retry_exc'] = None
        except BaseException as e:  # noqa
            out['retry_exc'] = f'{type(e).__name__}: {e}'[:200]
    return out


def mem_attempt(fault, base, kind='mem'):
    """An IN-MEMORY task (no store, no crash points): its run fails once, then the value is requested again from the
    same object, then from a downstream persisted task of a new chain."""
    chain = build(kind, base)
    t = chain['g:t']
    _ = chain['up'].value
    gen.CTRL['gen'] = None
    if fault in ('raise', 'interrupt'):
        gen.CTRL['raise'] = {'slug': 'g:t'}
        gen.CTRL['raise_base'] = fault == 'interrupt'
    else:
        gen.CTRL['bad'] = {json.dumps({'slug': 'g:t'}): fault}
    out = {'exc': None}
    try:
        _ = t.value
    except BaseException as e:  # noqa
        out['exc'] = f'{type(e).__name__}: {e}'[:200]
    gen.CTRL['raise'], gen.CTRL['raise_base'], gen.CTRL['bad'] = None, False, {}
    gen.RUNLOG.clear()
    try:
        out['retry'] = _nogen(gen.decode(kind, t.value))
        out['retry_exc'] = None
    except BaseException as e:  # noqa
        out['retry_exc'] = f'{type(e).__name__}: {e}'[:200]
    out['retry_runs'] = [e['slug'] for e in gen.RUNLOG]
    return out


def _nogen(tree):
    if isinstance(tree, dict):
        return {k: _nogen(v) for k, v in tree.items() if k != '#gen'}
    if isinstance(tree, list):
        return [_nogen(v) for v in tree]
    return tree


def later_chain(kind, base):
    """What a later chain (fresh interpreter) finds: has_data, value, runs; then once more."""
    res = {}
    for rnd in ('first', 'second'):
        gen.CTRL['gen'] = 5      # fewer padding arrays than the interrupted attempt wrote
        chain = build(kind, base)
        t = chain['g:t']
        gen.RUNLOG.clear()
        r = {}
        try:
            r['has_data'] = bool(t.has_data)
            r['value'] = _nogen(gen.decode(kind, t.value))
            r['exc'] = None
        except BaseException as e:  # noqa
            r['exc'] = f'{type(e).__name__}: {e}'[:200]
        r['runs'] = [e['slug'] for e in gen.RUNLOG]
        res[rnd] = r
    # and a forced recomputation in yet another chain must work as well (leftovers of the crash must not block it)
    chain = build(kind, base)
    t = chain['g:t']
    r = {}
    try:
        gen.CTRL['gen'] = 7
        r['value'] = _nogen(gen.decode(kind, t.force().value))
        r['exc'] = None
    except BaseException as e:  # noqa
        r['exc'] = f'{type(e).__name__}: {e}'[:200]
    res['forced'] = r
    res['listing'] = sorted(str(p.relative_to(base)) for p in Path(base).rglob('*'))
    return res


# --------------------------------------------------------------------------- abstraction for StoreSteps
def classify(path, final):
    """which object of the task directory a path belongs to"""
    if path is None:
        return 'other'
    fin = Path(final)
    task_dir = fin.parent
    try:
        rel = Path(path).relative_to(task_dir)
    except ValueError:
        return 'other'
    if not rel.parts:
        return 'side'  # the task directory itself
    head = rel.parts[0]
    stem = fin.name.split('.')[0]
    if head == fin.name:
        return 'final'
    if head.endswith(SIDE):
        return 'side'
    if head.startswith(stem + '_error'):
        return 'err'
    if head.startswith(stem + '_old'):
        return 'old'
    if head.startswith(stem):
        return 'tmp'
    return 'other'


def abstract(ops, final):
    """recorded operations -> abstract operations of StoreSteps (with the index of the real op each came from)"""
    out = []
    in_rm = None
    for i, (name, p, p2) in enumerate(ops):
        o = classify(p, final)
        if o in ('side', 'other'):
            continue
        if name == 'open_w':
            out.append({'op': 'WB', 'o': o, 'last': False, 'real': i})
            out.append({'op': 'WE', 'o': o, 'last': False, 'real': i, 'mid': True})
        elif name == 'mkdir':
            out.append({'op': 'MK', 'o': o, 'last': False, 'real': i})
        elif name == 'rename':
            o2 = classify(p2, final)
            out.append({'op': 'MV', 'o': o, 'to': o2, 'last': False, 'real': i})
        elif name == 'rm_begin':
            in_rm = o
            out.append({'op': 'RB', 'o': o, 'last': False, 'real': i})
        elif name == 'rm_end':
            in_rm = None
            out.append({'op': 'RE', 'o': o, 'last': False, 'real': i})
        elif name in ('unlink', 'rmdir'):
            if in_rm is not None:
                out.append({'op': 'RS', 'o': in_rm, 'last': False, 'real': i})
            elif p == final:
                out.append({'op': 'RM', 'o': o, 'last': False, 'real': i})
            else:
                out.append({'op': 'RS', 'o': o, 'last': False, 'real': i})
        elif name == 'exc':
            out.append({'op': 'XX', 'o': o, 'last': False, 'real': i})
    # 'last': the final write-type op on an object before it is moved away (or before the end)
    pending = {}
    for j, x in enumerate(out):
        if x['op'] in ('WE', 'MK'):
            pending[x['o']] = j
        elif x['op'] == 'MV':
            if x['o'] in pending:
                out[pending.pop(x['o'])]['last'] = True
        elif x['op'] in ('RB', 'RM'):
            pending.pop(x['o'], None)
    for j in pending.values():
        out[j]['last'] = True
    return out


def tla_proto(name, kind, init, outcome, aops, init_objs=None):
    def op(x):
        f = f'[op |-> "{x["op"]}", o |-> "{x["o"]}", last |-> {"TRUE" if x["last"] else "FALSE"}'
        if 'to' in x:
            f += f', to |-> "{x["to"]}"'
        return f + ']'

    io = init_objs or {}

    def state(v):      # a bool (something is there) or the abstract state itself
        return v if isinstance(v, str) else ('partial' if v else 'absent')
    pre = ', '.join(f'{o} |-> "{state(io.get(o))}"' for o in ('tmp', 'err', 'old'))
    return (f'[name |-> "{name}", kind |-> "{kind}", init |-> "{init}", pre |-> [{pre}], outcome |-> "{outcome}", '
            f'ops |-> <<{", ".join(op(x) for x in aops)}>>]')


# --------------------------------------------------------------------------- driving
def prepare(kind, root):
    """Directories holding the precondition state of each phase: 'first' (input computed) and 'forced' (result there)."""
    first = Path(root) / f'pre_first_{kind}'
    forced = Path(root) / f'pre_forced_{kind}'
    run_forked(_pre_first, kind, str(first))
    shutil.copytree(first, forced)
    run_forked(_pre_forced, kind, str(forced))
    return {'first': first, 'forced': forced}


def _pre_first(kind, base):
    chain = build(kind, base)
    _ = chain['up'].value


def _pre_forced(kind, base):
    chain = build(kind, base)
    _ = chain['g:t'].value


def fresh(pre, work, tag):
    d = Path(work) / tag
    if d.exists():
        shutil.rmtree(d)
    shutil.copytree(pre, d, symlinks=True)
    return d


def record(kind, phase, fault, pre, work, exc_at=None):
    d = fresh(pre, work, f'rec_{kind}_{phase}_{fault}_{exc_at}')
    out = run_forked(attempt, kind, phase, fault, str(d), None, exc_at)
    out['dir'] = d
    return out
