"""C18 - run records describe the run that produced the stored result (StoreAtomic behaviours with failing runs,
retries and forced recomputations; run info and log files read back after every step)."""
from ..store_check import scaled, run_families

RELEVANT = {'runinfo', 'log'}


def plans(quick):
    opts = {'runinfo': True, 'record': True}   # record: failed attempts are taken from the observed DX events
    if quick:
        return [
            dict(family='chain', opts=opts,
                 checks=[dict(steps=4, slots=1, rcs=['r1', 'r2'], restart=False)],
                 gen=dict(steps=4, slots=1, lists=[['r1'], ['r1', 'r2']], restart=False), cover_limit=250, walks=80,
                 walk_len=12, sim=dict(num=200, depth=12, rcs=['r1', 'r2', 'r4'])),
            dict(family='mounts', opts=opts,
                 checks=[dict(steps=4, slots=1, lists=[['u1'], ['m12']])],
                 gen=dict(steps=3, slots=1, lists=[['u1'], ['m12']], restart=False), cover_limit=100, walks=40,
                 sim=dict(num=100, depth=10)),
            # every storable data type (a generator task adds a record from its generator body; results that cannot
            # be stored fail after run returned)
            dict(family='kinds', opts=opts,
                 gen=dict(steps=4, slots=1, lists=[['k1']], restart=False), cover_limit=150, walks=40,
                 sim=dict(num=100, depth=12, lists=[['k1'], ['k2']])),
            # nested runs across namespaces: a task named like the namespace it reads from
            dict(family='levels', opts=opts,
                 gen=dict(steps=3, slots=1, lists=[['v2']], restart=False), cover_limit=80, walks=30),
            # name mode: results (and their records) are named after the config; config names that extend one another
            dict(family='names', name_mode=True, opts=opts,
                 gen=dict(steps=4, slots=1, rcs=['model', 'model.large'], lists=[['model'], ['model.large']], restart=False),
                 cover_limit=120, walks=40),
        ]
    return scaled(plans(True), 3)


def run(ctx):
    ctx.assumptions += ['user messages and run-info records carry a process-wide run number written by the generated run '
                        'bodies; the library\'s own "run started / run ended" lines are neither required nor forbidden',
                        'timestamps, user name and library version in run info are not compared']
    run_families(ctx, plans(ctx.quick()), RELEVANT)
    ctx.extra.pop('_recorded', None)
