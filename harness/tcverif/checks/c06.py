"""C06 - stored values round-trip exactly (specs/Codec.tla; partially applicable - see DESIGN.md section 9).

TLC model-checks the history machine (compute, re-read, two fresh loads) and enumerates value SHAPES per data kind;
the binding fills every shape with every named boundary atom of the kind, runs the history on real chains and
compares type-, dtype-, shape- and order-exactly, and hashes the stored files before and after every load."""
import hashlib
import json
import math
import os
import shutil
import sys
import types
from collections.abc import Generator
from pathlib import Path

from .. import gen
from ..core import MachineryError, scratch
from ..procs import pmap
from ..tlc import account, run_tlc, tla

LEVEL = 'model_checking'


# --------------------------------------------------------------------------- atoms
def json_atoms():
    return {
        'zero': 0, 'one': 1, 'neg': -1, 'i53': 2 ** 53 + 1, 'imax': 2 ** 63 - 1, 'imin': -2 ** 63, 'u64': 2 ** 64 - 1,
        'fzero': 0.0, 'fnegzero': -0.0, 'f15': 1.5, 'fmax': 1.7976931348623157e308, 'fdenorm': 5e-324, 'fsmall': 1e-07,
        'ftenth': 0.1, 'true': True, 'false': False, 'null': None, 'sempty': '', 'sa': 'a', 'suni': 'é🙂ß\u4e2d',
        'sls': 'a\u2028b\u2029c', 'snul': 'a\x00b', 'squote': 'a"b\'\\c\n\t/', 'slong': 'xy' * 6000, 'skeyish': '1',
    }


JSON_FALSY = ['zero', 'fzero', 'fnegzero', 'false', 'sempty', 'null']


def numpy_atoms():
    import numpy as np

    out = {}
    for dt in ('int8', 'int16', 'int32', 'int64', 'uint8', 'uint64', 'float16', 'float32', 'float64', 'bool', 'complex128'):
        d = np.dtype(dt)
        for shp_name, shp in (('0d', ()), ('e', (0,)), ('v', (3,)), ('m', (2, 3)), ('z', (2, 0, 3))):
            n = int(np.prod(shp)) if shp else 1
            if d.kind in 'iu':
                info = np.iinfo(d)
                vals = [info.min, info.max, 0, 1, info.max // 2, info.min // 2 if info.min else 2][:max(n, 0)] or []
                vals = (vals * 6)[:n]
            elif d.kind == 'f':
                info = np.finfo(d)
                vals = ([info.max, -0.0, info.tiny, 0.0, -info.max, 1.5] * 6)[:n]
            elif d.kind == 'c':
                vals = ([1 + 2j, -0.0 + 0j, 1e300 - 1e-300j] * 6)[:n]
            else:
                vals = ([True, False, False] * 6)[:n]
            out[f'{dt}-{shp_name}'] = np.array(vals, dtype=d).reshape(shp)
    out['U3-v'] = np.array(['', 'a', 'é🙂x'], dtype='<U3')
    out['U1-m'] = np.array([['a', 'b'], ['', 'c']], dtype='<U1')
    out['S2-v'] = np.array([b'', b'ab', b'\x00z'], dtype='S2')
    return out


NUMPY_FALSY = ['int64-e', 'float64-e', 'bool-e', 'int64-0d', 'float64-z', 'bool-0d']


def pandas_atoms():
    import numpy as np
    import pandas as pd

    return {
        'df-empty': pd.DataFrame(),
        'df-nocols': pd.DataFrame(index=[1, 2]),
        'df-ints': pd.DataFrame({'a': [1, 2, 3], 'b': [2 ** 62, -1, 0]}),
        'df-mixed': pd.DataFrame({'o': ['x', None, 3], 'f': [1.5, float('nan'), -0.0], 'b': [True, False, True]}),
        'df-strindex': pd.DataFrame({'a': [1.0, 2.0]}, index=['r1', 'é🙂']),
        'df-multiindex': pd.DataFrame({'a': [1, 2, 3, 4]}, index=pd.MultiIndex.from_product([['x', 'y'], [1, 2]], names=['l', 'n'])),
        'df-intcols': pd.DataFrame([[1, 2], [3, 4]], columns=[10, 5]),
        'df-tuplecols': pd.DataFrame([[1, 2]], columns=pd.MultiIndex.from_tuples([('a', 1), ('b', 2)])),
        'df-datetime': pd.DataFrame({'t': pd.to_datetime(['2020-01-01 00:00:00.000000', '1999-12-31 23:59:59.123456'])}),
        'df-category': pd.DataFrame({'c': pd.Categorical(['u', 'v', 'u'], categories=['v', 'u', 'w'])}),
        'df-dtypes': pd.DataFrame({'i8': np.array([1, 2], dtype='int8'), 'f4': np.array([1.5, 2.5], dtype='float32')}),
        'ser-int': pd.Series([3, 1, 2], name='s'),
        'ser-empty': pd.Series([], dtype='float64'),
        'ser-strindex': pd.Series({'b': 1.5, 'a': 2.5}),
    }


PANDAS_FALSY = ['df-empty', 'ser-empty', 'df-nocols']


def dir_atoms():
    return {
        'dir-empty': {},
        'dir-files': {'a.txt': b'text\n', 'bin.dat': bytes(range(256)) * 3, 'empty': b''},
        'dir-nested': {'x/y/z.txt': b'deep', 'x/empty_dir/': None, 'top.json': b'{"a": 1}'},
    }


ATOMS = {'json': json_atoms, 'generated': json_atoms, 'numpy': numpy_atoms, 'listnpy': numpy_atoms, 'pandas': pandas_atoms,
         'dir': dir_atoms}
FALSY = {'json': JSON_FALSY, 'generated': JSON_FALSY, 'numpy': NUMPY_FALSY, 'listnpy': NUMPY_FALSY, 'pandas': PANDAS_FALSY,
         'dir': ['dir-empty']}
CONTAINER_KINDS = {'json', 'generated', 'listnpy'}


def build(kind, shape, atoms):
    """the concrete value of a shape, or None when the shape is not meaningful for the kind"""
    s = shape['s']
    at = lambda x: atoms[x['a']]  # noqa: E731
    if s == 'atom':
        v = atoms[shape['a']]
        if kind == 'json' and v is None:
            return None  # a task cannot return None
        if kind == 'generated':
            return [v]
        if kind == 'listnpy':
            return [v]
        return v
    if kind not in CONTAINER_KINDS:
        return None
    if s == 'empty-list':
        return []
    if s == 'long':
        import numpy as np
        n = shape['n']
        if kind == 'listnpy':   # (stored as files 0.npy ... <n-1>.npy: every order of the names but the numeric one is wrong)
            return [np.full((i % 3 + 1,), i, dtype=('int64', 'float32', 'uint16')[i % 3]) for i in range(n)]
        if kind == 'generated':
            return [{'i': i} if i % 2 else [i] for i in range(n)]
        return {'l': list(range(n)), 'm': {f'k{i}': i for i in range(n)}}
    if s == 'list1':
        return [at(shape['x'])]
    if s == 'pair':
        return [at(shape['x']), at(shape['y'])]
    if kind == 'listnpy':
        if s == 'list-of-list':
            import numpy as np
            # more than ten arrays, all different: the order must survive storage (files 0.npy ... 11.npy)
            return [np.append(np.asarray(at(shape['x'])).ravel()[:1], i).astype(np.asarray(at(shape['x'])).dtype) if
                    np.asarray(at(shape['x'])).dtype.kind in 'iuf' else np.array([i]) for i in range(12)]
        return None
    if s == 'empty-map':
        return {} if kind == 'json' else [{}]
    if s == 'map1':
        v = {'ключ "q" 🙂': at(shape['x'])}
    elif s == 'list-of-list':
        v = [[at(shape['x'])], [], [[at(shape['x']), at(shape['x'])]]]
    elif s == 'map-in-list-in-map':
        v = {'a': [{'': at(shape['x']), 'z': {}}, []], 'b': at(shape['x'])}
    else:
        return None
    return v if kind == 'json' else [v, v]


# --------------------------------------------------------------------------- exact equality
def exact(a, b):
    import numpy as np
    import pandas as pd

    if isinstance(a, np.ndarray) or isinstance(b, np.ndarray):
        if not (isinstance(a, np.ndarray) and isinstance(b, np.ndarray)):
            return False
        if a.dtype != b.dtype or a.shape != b.shape:
            return False
        if a.dtype.kind in 'fc':
            return bool(np.array_equal(a, b, equal_nan=True)) and bool(np.array_equal(np.signbit(a.real), np.signbit(b.real)))
        return bool(np.array_equal(a, b))
    if isinstance(a, (pd.DataFrame, pd.Series)) or isinstance(b, (pd.DataFrame, pd.Series)):
        if type(a) is not type(b):
            return False
        try:
            if isinstance(a, pd.DataFrame):
                pd.testing.assert_frame_equal(a, b, check_exact=True, check_dtype=True, check_index_type=True,
                                              check_column_type=True, check_names=True, check_categorical=True)
            else:
                pd.testing.assert_series_equal(a, b, check_exact=True, check_dtype=True, check_index_type=True, check_names=True)
            return True
        except AssertionError:
            return False
    if type(a) is not type(b):
        return False
    if isinstance(a, dict):
        return set(a) == set(b) and all(type(k) is str for k in b) and all(exact(a[k], b[k]) for k in a)
    if isinstance(a, list):
        return len(a) == len(b) and all(exact(x, y) for x, y in zip(a, b))
    if isinstance(a, float):
        return a == b and math.copysign(1, a) == math.copysign(1, b)
    return a == b


def tree_hash(root):
    h = {}
    for p in sorted(Path(root).rglob('*')):
        if p.is_file() and not p.name.endswith(('.log', '.run_info.yaml')):
            h[str(p.relative_to(root))] = hashlib.sha1(p.read_bytes()).hexdigest()
    return h


# --------------------------------------------------------------------------- the task
CURRENT = {'value': None, 'kind': None}
_classes = {}


def task_class(kind, value):
    import numpy as np
    import pandas as pd
    from taskchain import Task
    from taskchain.data import DirData, ListOfNumpyData

    if kind == 'json':
        rt = type(value)
    elif kind == 'numpy':
        rt = np.ndarray
    elif kind == 'pandas':
        rt = type(value)
    elif kind == 'generated':
        rt = Generator
    elif kind == 'listnpy':
        rt = ListOfNumpyData
    else:
        rt = DirData
    key = (kind, rt)
    if key not in _classes:
        def run(self):
            gen.RUNLOG.append({'slug': 'codec'})
            v = CURRENT['value']
            k = CURRENT['kind']
            if k == 'generated':
                return (x for x in v)
            if k == 'listnpy':
                d = ListOfNumpyData()
                d.set_value(v)
                return d
            if k == 'dir':
                d = self.get_data_object()
                for rel, content in v.items():
                    p = d.dir / rel
                    if content is None:
                        p.mkdir(parents=True, exist_ok=True)
                    else:
                        p.parent.mkdir(parents=True, exist_ok=True)
                        p.write_bytes(content)
                return d
            return v
        run.__annotations__['return'] = rt
        _classes[key] = type(Task)(f'Codec{len(_classes)}Task', (Task,), {
            'run': run, 'Meta': type('Meta', (), {'name': 'codec'}), '__module__': 'vgen.codec'})
    return _classes[key]


def read_dir(path):
    out = {}
    root = Path(path)
    for p in sorted(root.rglob('*')):
        rel = str(p.relative_to(root))
        if p.is_dir():
            if not any(p.iterdir()):
                out[rel + '/'] = None
        else:
            out[rel] = p.read_bytes()
    return out


def one(job):
    idx, kind, shape = job
    from taskchain import Config

    atoms = ATOMS[kind]()
    value = build(kind, shape, atoms)
    if value is None:
        return idx, 'skip', []
    root = scratch(f'c06-{os.getpid()}') / f'v{idx}'
    bad = []
    label = f'[{kind}] {json.dumps(shape)}'
    try:
        CURRENT['value'], CURRENT['kind'] = value, kind
        cls = task_class(kind, value)
        gen.RUNLOG.clear()

        def chain():
            return Config(root, name='cfg', data={'tasks': [cls]}).chain()

        def norm(v):
            if kind == 'dir':
                return read_dir(v)
            if kind == 'listnpy':
                return list(v)
            return v
        expect = value if kind != 'dir' else {k: v for k, v in value.items()}
        a = chain()
        v1 = norm(a['codec'].value)
        v1b = norm(a['codec'].value)
        if not exact(v1, expect) and not (kind == 'dir' and v1 == expect):
            bad.append(('computing-chain', f'{label}: the computing chain returned {str(v1)[:100]!r} for a run that returned '
                                           f'{str(expect)[:100]!r}'))
        if not exact(v1b, expect) and not (kind == 'dir' and v1b == expect):
            bad.append(('reread', f'{label}: the second read from the computing chain differs: {str(v1b)[:100]!r}'))
        h0 = tree_hash(root)
        for n in (1, 2):
            b = chain()
            if not b['codec'].has_data:
                bad.append(('not-stored', f'{label}: no stored result after the computation'))
                break
            v2 = norm(b['codec'].value)
            if not (exact(v2, expect) or (kind == 'dir' and v2 == expect)):
                bad.append(('loaded', f'{label}: a later chain loaded {str(v2)[:120]!r} (type {type(v2).__name__}), run '
                                      f'returned {str(expect)[:120]!r} (type {type(expect).__name__})'))
                break
            if tree_hash(root) != h0:
                bad.append(('load-modifies', f'{label}: loading changed the stored files'))
                break
        if len(gen.RUNLOG) != 1:
            bad.append(('runs', f'{label}: run executed {len(gen.RUNLOG)} times'))
    except Exception as e:  # noqa
        import traceback
        bad.append(('error', f'{label}: {type(e).__name__}: {str(e)[:200]} {traceback.format_exc()[-300:]}'))
    finally:
        shutil.rmtree(root, ignore_errors=True)
    return idx, 'ok', bad


def run(ctx):
    kinds = ['json', 'generated', 'numpy', 'listnpy', 'pandas', 'dir']
    atoms_of = {k: sorted(ATOMS[k]()) for k in kinds}
    if ctx.quick():
        for k in ('numpy', 'listnpy'):
            atoms_of[k] = [a for i, a in enumerate(atoms_of[k]) if i % 2 == ctx.seed % 2 or a in NUMPY_FALSY]
    mod = ('---- MODULE MCCodec ----\nEXTENDS Codec\n'
           f'c_Kinds == {tla(set(kinds))}\nc_AtomsOf == {tla({k: set(v) for k, v in atoms_of.items()})}\n'
           f'c_Falsy == {tla(set(sum(FALSY.values(), [])))}\n====\n')
    cfg = ('CONSTANTS\n  Kinds <- c_Kinds\n  AtomsOf <- c_AtomsOf\n  Falsy <- c_Falsy\n  Emit = TRUE\nINIT Init\nNEXT Next\n'
           'INVARIANT RoundTrip\nINVARIANT HeldIsStored\nINVARIANT FalsyIsAValue\nINVARIANT EmitCase\nPROPERTY LoadIsReadOnly\n')
    res = run_tlc('MCCodec', cfg_text=cfg, extra_files={'MCCodec.tla': mod}, workers=8, timeout=1800)
    account(ctx, res, 'Codec: history machine over every (kind, shape x atom): RoundTrip, HeldIsStored, FalsyIsAValue, LoadIsReadOnly')
    seen, cases = set(), []
    for c in res.by_tag('V'):
        k = json.dumps([c['kind'], c['val']], sort_keys=True)
        if k not in seen:
            seen.add(k)
            cases.append(c)
    sys.modules.setdefault('vgen.codec', types.ModuleType('vgen.codec'))
    out = pmap(one, [(i, c['kind'], c['val']) for i, c in enumerate(cases)])
    done = 0
    for idx, status, bad in out:
        if status == 'skip':
            continue
        done += 1
        c = cases[idx]
        ctx.case(json.dumps([c['kind'], c['val']], sort_keys=True), nontrivial=True)
        for cls, text in bad:
            ctx.report(f"{c['kind']}:{cls}:{c['val'].get('a') or c['val'].get('x', {}).get('a')}", text, detail=c)
    ctx.traces += done
    ctx.extra['cases_not_meaningful_for_kind'] = len(cases) - done
    for c in cases[:3] + cases[-2:]:
        ctx.sample(c)
    ctx.assumptions += ['a bounded, enumerated value domain (named boundary atoms x shapes of depth <= 2), not "all values"',
                        'JSON domain: string keys, finite floats, integers in [-2^63, 2^64-1], valid unicode; mapping key '
                        'order is not part of the value', 'FigureData and H5Data are not exercised']
