"""C10 - task names resolve uniquely or not at all.

Spec: specs/Names.tla.  TLC enumerates every name set (<= MaxSet names over menus chosen so that tokens are textual
prefixes/suffixes of one another) x every query, checks IFind = PFind (the character-level transcription of
_find_task_full_name against the token-level property) and prints each case with the expected resolution.
Binding: every case is pushed through the real _find_task_full_name under every order of the name list and through
a real chain having exactly these task names (chain[q], q in chain, chain.get, attribute access, input_tasks[q]).
"""
import itertools
import json
import os
import shutil

from .. import gen
from ..core import scratch
from ..procs import pmap
from ..tlc import account, run_tlc, tla

MENUS = {
    'Ns': [[], ['n'], ['xn'], ['xn', 'n']],
    'Grp': [[], ['g'], ['xg'], ['h', 'g']],
    'Name': ['a', 'xa'],
}


def text(t):
    g = ':'.join(list(t['grp']) + [t['name']])
    return '::'.join(list(t['ns']) + [g])


def mc(maxset, emit):
    mod = ('---- MODULE MCNames ----\nEXTENDS Names\n'
           f"c_Ns == {tla(set(tuple(x) for x in MENUS['Ns'])) if False else '{' + ', '.join(tla(x) for x in MENUS['Ns']) + '}'}\n"
           f"c_Grp == {'{' + ', '.join(tla(x) for x in MENUS['Grp']) + '}'}\n"
           f"c_Name == {tla(set(MENUS['Name']))}\n====\n")
    cfg = ('CONSTANTS\n  NsMenu <- c_Ns\n  GrpMenu <- c_Grp\n  NameMenu <- c_Name\n'
           f'  MaxSet = {maxset}\n  Emit = {"TRUE" if emit else "FALSE"}\nINIT Init\nNEXT Next\n'
           'INVARIANT TextInjective\nINVARIANT FindConforms\nINVARIANT UniqueResolves\nINVARIANT ResultSane\n'
           'INVARIANT EmitCase\n')
    return mod, cfg


_mod = None


def _module():
    global _mod
    if _mod is None:
        specs = []
        for g in MENUS['Grp']:
            for n in MENUS['Name']:
                slug = ':'.join(list(g) + [n])
                specs.append(dict(slug=slug, cls_name='T_' + slug.replace(':', '_'), params=[dict(name='x')],
                                  run_params=['x'], pulls=[], inputs=[], kind='json'))
        _mod = gen.make_module(specs, 'vgen.names')
    return _mod


def _expect(r):
    return None if 'err' in r else text(r)


def _case(job):
    """Run one case against the real code; returns list of (sig, what)."""
    idx, case = job
    from taskchain import Config, Task
    from taskchain.task import _find_task_full_name

    names = [text(t) for t in case['names']]
    q = text(case['q'])
    want = _expect(case['r'])
    bad = []
    # ---- the function itself, under every order of the name list
    for perm in itertools.permutations(names):
        try:
            got = _find_task_full_name(q, list(perm))
        except KeyError:
            got = None
        if got != want:
            bad.append((f'find:{sorted(names)}:{q}',
                        f'_find_task_full_name({q!r}, {list(perm)}) = {got!r}, the property requires '
                        f'{want if want else case["r"]["err"]!r}'))
            break
    # ---- a real chain with exactly these task names
    mod = _module()
    root = scratch(f'c10-{os.getpid()}')
    work = root / f'w{idx}'
    work.mkdir(parents=True, exist_ok=True)
    try:
        paths = {()}
        for t in case['names']:
            for i in range(len(t['ns']) + 1):
                paths.add(tuple(t['ns'][:i]))
        xval = {p: i + 1 for i, p in enumerate(sorted(paths))}
        sink = type(Task)('ZsinkTask', (Task,), {
            'Meta': type('Meta', (), {'input_tasks': list(names), 'name': 'zsink'}),
            'run': _sink_run, '__module__': 'vgen.names'})
        setattr(mod, 'ZsinkTask', sink)
        # a second dependant in the root namespace declaring SHORT names of root tasks (resolved inside the root
        # namespace while the chain is wired; the same short name asked of the chain afterwards ranges over all namespaces)
        roots = [t for t in case['names'] if not t['ns']]
        shorts = sorted({t['name'] for t in roots if sum(1 for u in roots if u['name'] == t['name']) == 1})
        zdep = type(Task)('ZdepTask', (Task,), {
            'Meta': type('Meta', (), {'input_tasks': shorts, 'name': 'zdep'}),
            'run': _sink_run, '__module__': 'vgen.names'})
        setattr(mod, 'ZdepTask', zdep)
        for p in sorted(paths, key=len, reverse=True):
            tasks = [f"vgen.names.T_{':'.join(list(t['grp']) + [t['name']]).replace(':', '_')}"
                     for t in case['names'] if tuple(t['ns']) == p]
            if p == ():
                tasks.append('vgen.names.ZsinkTask')
                tasks.append('vgen.names.ZdepTask')
            uses = [f"{work / ('f_' + '_'.join(c) + '.json')} as {c[-1]}" for c in sorted(paths)
                    if len(c) == len(p) + 1 and c[:len(p)] == p]
            (work / ('f_' + '_'.join(p) + '.json')).write_text(json.dumps({'tasks': tasks, 'uses': uses, 'x': xval[p]}))
        chain = Config(work / 'data', work / 'f_.json').chain()
        got_names = sorted(n for n in chain.tasks if n not in ('zsink', 'zdep'))
        if got_names != sorted(names):
            bad.append((f'chain-names:{sorted(names)}', f'chain built for names {sorted(names)} has tasks {got_names}'))
        else:
            exp_obj = chain.tasks[want] if want else None
            probes = {
                'chain[q]': lambda: chain[q],
                'chain.get(q)': lambda: chain.get(q),
                'input_tasks[q]': lambda: chain.tasks['zsink'].input_tasks[q],
            }
            if q.isidentifier():
                probes['chain.<q>'] = lambda: getattr(chain, q)
            for label, fn in probes.items():
                try:
                    got = fn()
                except (KeyError, AttributeError):
                    got = None
                if got is not exp_obj:
                    bad.append((f'{label}:{sorted(names)}:{q}',
                                f'{label} with names {sorted(names)}, q={q!r} gave {got!r}, the property requires '
                                f'{want if want else case["r"]["err"]!r}'))
            if (q in chain) != (want is not None):
                bad.append((f'in:{sorted(names)}:{q}', f'({q!r} in chain) = {q in chain} with names {sorted(names)}'))
            if (q in chain.tasks['zsink'].input_tasks) != (want is not None):
                bad.append((f'in-inputs:{sorted(names)}:{q}', f'({q!r} in input_tasks) wrong with names {sorted(names)}'))
    except Exception as e:  # noqa
        bad.append((f'chain-build:{sorted(names)}', f'chain for names {sorted(names)} failed: {type(e).__name__}: {e}'))
    finally:
        shutil.rmtree(work, ignore_errors=True)
    return idx, bad


def _sink_run(self) -> dict:
    return {}


# --------------------------------------------------------------------------- histories (specs/NamesHist.tla)
HIST_MENUS = {'Ns': [[], ['n'], ['xn', 'n']], 'Grp': [[], ['g'], ['h', 'g']], 'Name': ['a', 'xa']}


def mc_hist(maxset):
    mod = ('---- MODULE MCNamesHist ----\nEXTENDS NamesHist\n'
           f"c_Ns == {'{' + ', '.join(tla(x) for x in HIST_MENUS['Ns']) + '}'}\n"
           f"c_Grp == {'{' + ', '.join(tla(x) for x in HIST_MENUS['Grp']) + '}'}\n"
           f"c_Name == {tla(set(HIST_MENUS['Name']))}\n====\n")
    cfg = ('CONSTANTS\n  NsMenu <- c_Ns\n  GrpMenu <- c_Grp\n  NameMenu <- c_Name\n'
           f'  MaxSet = {maxset}\n')
    return mod, cfg


def _hist(job):
    """Step one TLC behaviour through one real InputTasks object."""
    idx, beh = job
    from taskchain.task import InputTasks

    reg = InputTasks()
    objs = {}
    order, removed = [], False
    done = []
    for st in beh:
        act = st['act']
        if act['name'] == 'Add':
            k = text(act['t'])
            objs[k] = object()
            reg[k] = objs[k]
            order.append(k)
        elif act['name'] == 'Remove':
            k = text(act['t'])
            del reg[k]
            order.remove(k)
            removed = True
        elif act['name'] == 'Lookup':
            q = text(act['q'])
            want = None if 'err' in st['res'] else text(st['res'])
            probes = {'reg[q]': lambda: reg[q], 'reg.get(q)': lambda: reg.get(q)}
            for label, fn in probes.items():
                try:
                    got = fn()
                except KeyError:
                    got = None
                if got is not (objs[want] if want else None):
                    gname = next((n for n, o in objs.items() if o is got), got)
                    return idx, (f'hist:{label}', f'after {" ; ".join(done)}: {label} with q={q!r} on a registry holding '
                                                  f'{order} gave {gname!r}, the property requires '
                                                  f'{want if want else st["res"]["err"]!r}')
            if (q in reg) != (want is not None):
                return idx, ('hist:in', f'after {" ; ".join(done)}: ({q!r} in reg) = {q in reg} on a registry holding {order}')
        if not removed:
            for i, k in enumerate(order):
                if reg[i] is not objs[k]:
                    return idx, ('hist:index', f'after {" ; ".join(done)}: reg[{i}] is not the {i}-th task added ({k})')
        done.append(f"{act['name']}({text(act.get('t') or act.get('q'))})")
    return idx, None


def histories(ctx):
    from ..core import MachineryError
    from ..tlaparse import parse_trace_file

    quick = ctx.quick()
    mod, cfg = mc_hist(2 if quick else 3)
    res = run_tlc('MCNamesHist', cfg_text=cfg + 'INIT Init\nNEXT Next\nINVARIANT TypeOK\nINVARIANT FindConforms\n'
                  'INVARIANT OrderFree\nPROPERTY LookupIsCurrent\n', extra_files={'MCNamesHist.tla': mod},
                  workers=8, timeout=1500, coverage=True)
    account(ctx, res, 'NamesHist: every history of adds / removes / lookups on a registry; FindConforms, OrderFree, '
                      'LookupIsCurrent')
    out = scratch(f'nameshist-{ctx.prop}')
    for f in out.glob('tr_*'):
        f.unlink()
    num, depth = (400, 14) if quick else (3000, 18)
    mod, cfg = mc_hist(3 if quick else 4)
    sim = run_tlc('MCNamesHist', cfg_text=cfg + 'INIT Init\nNEXT Next\n', extra_files={'MCNamesHist.tla': mod}, workers=1,
                  timeout=1200, simulate=f'file={out}/tr,num={num}', depth=depth, seed=ctx.seed + 1)
    behs = []
    for f in sorted(out.glob('tr_*')):
        states = parse_trace_file(f.read_text())
        behs.append([st for _, st in states[1:]])
        f.unlink()
    if not behs:
        raise MachineryError('NamesHist simulation produced no behaviour:\n' + sim.stdout[-1000:])
    ctx.transitions += sum(len(b) for b in behs)
    ctx.tlc_runs.append({'run': f'NamesHist simulate num={num} depth={depth}', 'behaviours': len(behs),
                         'transitions': sum(len(b) for b in behs)})
    res = pmap(_hist, list(enumerate(behs)))
    ctx.traces += len(behs)
    ctx.extra['registry_histories_replayed'] = len(behs)
    ctx.extra['registry_lookups_compared'] = sum(1 for b in behs for st in b if st['act']['name'] == 'Lookup')
    for idx, bad in res:
        if bad:
            ctx.report(bad[0], bad[1], detail={'behaviour': [st['act'] for st in behs[idx]]})


def run(ctx):
    maxset = 2 if ctx.quick() else 3
    mod, cfg = mc(maxset, True)
    res = run_tlc('MCNames', cfg_text=cfg, extra_files={'MCNames.tla': mod}, workers=8, timeout=1500)
    account(ctx, res, f'Names MaxSet={maxset}: IFind=PFind, UniqueResolves, ResultSane on every name set x query')
    cases = res.by_tag('N')
    ctx.exhaustive = True
    if ctx.quick():
        # all sets of <= 2 names replayed, plus all triples model-checked and a seeded sample of them replayed
        mod3, cfg3 = mc(3, True)
        res3 = run_tlc('MCNames', cfg_text=cfg3, extra_files={'MCNames.tla': mod3}, workers=8, timeout=900)
        account(ctx, res3, 'Names MaxSet=3 (all triples model-checked; a seeded sample of 2500 replayed in the quick tier)')
        triples = [c for c in res3.by_tag('N') if len(c['names']) == 3]
        cases = cases + ctx.rng.sample(triples, min(2500, len(triples)))
        ctx.exhaustive = False
    _module()
    out = pmap(_case, list(enumerate(cases)))
    ctx.traces += len(cases)
    for idx, bad in out:
        c = cases[idx]
        amb = 'err' in c['r'] or len(c['names']) > 1
        ctx.case(json.dumps([sorted(text(t) for t in c['names']), text(c['q'])]), nontrivial=amb)
        for sig, what in bad:
            ctx.report(sig, what, detail=c)
    for c in cases[:3] + cases[-3:]:
        ctx.sample({'names': [text(t) for t in c['names']], 'query': text(c['q']),
                    'expected': _expect(c['r']) or c['r']['err']})
    histories(ctx)
    ctx.extra['cases_where_textual_suffix_rule_differs'] = sum(1 for c in cases if c['r'] != c['textual'])
    ctx.assumptions += ['names are drawn from menus of namespace paths (depth <= 2), group paths (depth <= 2) and two '
                        'task names chosen so that tokens are textual suffixes of one another (n/xn, g/xg, a/xa)']
