"""C04 - each computation runs at most once, and only on demand."""
from ..store_check import run_families

RELEVANT = {'runs', 'error'}


def plans(quick):
    if quick:
        return [
            dict(family='chain',
                 checks=[dict(steps=6, slots=2, rcs=['r1', 'r2', 'r4'], force=False, fail=False, count=True),
                         dict(steps=4, slots=1, rcs=['r1', 'r2', 'r4'], count=True)],
                 gen=dict(steps=4, slots=1, lists=[['r1'], ['r4'], ['r1', 'r2']], force=False), cover_limit=150,
                 walks=60, sim=dict(num=200, depth=14, force=False, fail=False)),
            dict(family='diamond',
                 checks=[dict(steps=5, slots=2, force=False, fail=False, count=True, rcs=['d1', 'd2'])],
                 gen=dict(steps=4, slots=1, lists=[['d1'], ['d2'], ['d1', 'd2']], force=False), cover_limit=120,
                 walks=40, sim=dict(num=150, depth=12)),
            # two chain variables over ONE configuration, exhaustively: inspection / requests of one chain interleaved
            # with computations through the other
            dict(family='chain',
                 gen=dict(steps=5, slots=2, rcs=['r1'], lists=[['r1']], force=False, fail=False, restart=False),
                 cover_limit=None, walks=0),
            dict(family='pair',
                 gen=dict(steps=5, slots=2, force=False, fail=False, restart=False), cover_limit=None, walks=1500, walk_len=6),
            dict(family='kinds',
                 gen=dict(steps=3, slots=1, lists=[['k1'], ['k2']], force=False, fail=False), cover_limit=80, walks=30,
                 sim=dict(num=60, depth=10, force=False, fail=False)),
        ]
    return [
        dict(family='chain', gen=dict(steps=6, slots=2, rcs=['r1'], lists=[['r1']], force=False, fail=False, restart=False)),
        dict(family='pair', gen=dict(steps=6, slots=2, force=False, fail=False), walks=20000, walk_len=7),
        dict(family='kinds', checks=[dict(steps=5, slots=2, force=False, fail=False, count=True)],
             gen=dict(steps=4, slots=1, force=False), walks=200, sim=dict(num=800, depth=14)),
    ] + [
        dict(family=f,
             checks=[dict(steps=8, slots=2, force=False, fail=False, count=True), dict(steps=5, slots=2, count=True)],
             gen=dict(steps=5, slots=1, force=False), walks=300, walk_len=16, sim=dict(num=2000, depth=18))
        for f in ('chain', 'mounts', 'diamond')
    ]


def run(ctx):
    ctx.assumptions += ['run invocations are observed through the generated run bodies (no source hook)',
                        'Chain.draw() is not exercised (graphviz is not installed)']
    run_families(ctx, plans(ctx.quick()), RELEVANT)
