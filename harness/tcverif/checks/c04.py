"""C04 - each computation runs at most once, and only on demand."""
from ..store_check import scaled, run_families, validate_recorded

RELEVANT = {'runs', 'error'}


def plans(quick):
    if quick:
        return [
            dict(family='chain',
                 checks=[dict(steps=6, slots=2, rcs=['r1', 'r2', 'r4'], force=False, fail=False, count=True),
                         dict(steps=4, slots=1, rcs=['r1', 'r2', 'r4'], count=True)],
                 gen=dict(steps=4, slots=1, lists=[['r1'], ['r4'], ['r1', 'r2']], force=False), cover_limit=None,
                 walks=60, sim=dict(num=200, depth=14, force=False, fail=False)),
            dict(family='diamond',
                 checks=[dict(steps=5, slots=2, force=False, fail=False, count=True, rcs=['d1', 'd2'])],
                 gen=dict(steps=4, slots=1, lists=[['d1'], ['d2'], ['d1', 'd2']], force=False), cover_limit=None,
                 walks=40, sim=dict(num=150, depth=12)),
            # two chain variables over ONE configuration, exhaustively: inspection / requests of one chain interleaved
            # with computations through the other
            dict(family='chain',
                 gen=dict(steps=5, slots=2, rcs=['r1'], lists=[['r1']], force=False, fail=False, restart=False),
                 cover_limit=None, walks=0),
            dict(family='pair',
                 gen=dict(steps=5, slots=2, force=False, fail=False, restart=False), cover_limit=None, walks=1500, walk_len=6),
            # one computation reached at different namespace depths by different configurations: served, not run again
            dict(family='levels',
                 gen=dict(steps=4, slots=1, lists=[['v2'], ['v4'], ['v1'], ['s12'], ['s21']], force=False, fail=False), cover_limit=150,
                 walks=40, sim=dict(num=60, depth=10, force=False, fail=False)),
            dict(family='kinds',
                 gen=dict(steps=3, slots=1, lists=[['k1'], ['k2']], force=False, fail=False), cover_limit=80, walks=30,
                 sim=dict(num=60, depth=10, force=False, fail=False)),
            dict(family='names', name_mode=True, gen=dict(steps=4, slots=1, rcs=['model', 'model.large', 'top1'], lists=[['model'], ['model.large'], ['top1']], force=False, fail=False), cover_limit=100, walks=40, sim=dict(num=80, depth=10, force=False, fail=False)),
        ]
    return scaled(plans(True), 3)


def suite_traces(ctx):
    """the repository's own tests, every step of every test checked against the decision logic of StoreTrace.tla"""
    from .. import trace_check

    traces, summary = trace_check.record(ctx)
    n, rejected = trace_check.validate(ctx, traces)
    trace_check.selftest(ctx, traces)
    ctx.traces += n
    ctx.extra['suite_traces_validated'] = n
    ctx.extra['suite_events'] = sum(len(t['events']) for t in traces)
    ctx.extra['suite_result'] = summary
    for test, k, ev, before, tasks in rejected:
        what = {'R': 'run was entered although a result was visible and the task not forced, or a value was held',
                'L': 'a result was loaded although it was not visible / the task was forced / a value was held',
                'E': 'exists() contradicts the saves and deletes seen so far',
                'S': 'a result was saved outside the request of its task or before run was entered',
                'DE': 'a request returned without load or run, or a task holding a value did something'}.get(ev[0], 'event not allowed here')
        ctx.report(f'suite-trace:{test}:{ev[0]}', f'{test}: event #{k} {ev} is not a behaviour of StoreTrace ({what}); '
                                                   f'preceding events {before}')


def run(ctx):
    suite_traces(ctx)
    ctx.assumptions += ['run invocations are observed through the generated run bodies (no source hook)',
                        'Chain.draw() is not exercised (graphviz is not installed)']
    ps = plans(ctx.quick())
    for p in ps:
        p['opts'] = dict(p.get('opts') or {}, record=True)   # the replays are recorded too and validated below
    run_families(ctx, ps, RELEVANT)
    validate_recorded(ctx, cap=1500 if ctx.quick() else None)
