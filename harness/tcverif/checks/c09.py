"""C09 - configs compose by declared precedence, without leaking or silent override (specs/Resolve.tla)."""
from .. import resolve_check


def run(ctx):
    ctx.assumptions += ['forests are drawn from the menus of resolve_check.menus(); JSON and YAML files alternate; '
                        'context sources are given as dicts, files and lists']
    resolve_check.run(ctx, resolve_check.C09_CATS)
