"""C17 - parallel_map equals map, whatever the scheduling; chunked (specs/ParMap.tla)."""
import json
import threading
import time
from collections import defaultdict

from taskchain.utils import iter as _tci  # noqa: F401  (imported before forking: 1.4 s otherwise per child)
from taskchain.utils import threading as _tct  # noqa: F401

from ..core import MachineryError
from ..procs import pmap, run_forked
from ..tlc import account, run_tlc, tla

INVS = ['ChunkLaw', 'EqualsMap', 'PermutationPerChunk', 'ExactlyOnce', 'RaisePropagates', 'Bounded']


def mc(ns, gen):
    mod = ('---- MODULE MCParMap ----\nEXTENDS ParMap\n'
           f'c_Ns == {tla(set(ns))}\nc_T == {{1, 2, 3}}\nc_C == {{1, 2, 3, 4, 6}}\nc_R == {{2, 4}}\n====\n')
    cfg = (f'CONSTANTS\n  Ns <- c_Ns\n  ThreadSet <- c_T\n  ChunkSizes <- c_C\n  RaiseSet <- c_R\n  Emit = {"TRUE" if gen else "FALSE"}\n')
    if gen:
        cfg += 'INIT EmitInit\nNEXT EmitNext\n'
    else:
        cfg += 'INIT Init\nNEXT Next\n' + ''.join(f'INVARIANT {i}\n' for i in INVS)
    return mod, cfg


class Boom(Exception):
    pass


class BoomStop(Boom, StopIteration):
    """an exception type that loops and iterator protocols swallow when they are careless"""


def drive(which, par, steps):
    """Run the real parallel_map with completions dictated by `steps` ([(a, i)]).  Returns observations."""
    import concurrent.futures as cf

    from taskchain.utils import iter as tci
    from taskchain.utils import threading as tct

    n = par['n']
    started = defaultdict(threading.Event)
    release = defaultdict(threading.Event)
    delivered = defaultdict(threading.Event)
    calls = defaultdict(int)
    main = threading.current_thread()
    tl = threading.local()

    def f(x):
        calls[x] += 1
        tl.item = x
        started[x].set()
        if not release[x].wait(20):
            raise RuntimeError('controller never released the worker')
        if threading.current_thread() is main:
            delivered[x].set()
        if x == par['raiseat']:
            if threading.current_thread() is main:
                delivered[x].set()
            raise (BoomStop(x) if par.get('stopiter') else Boom(x))
        return x * 10

    o_res, o_exc = cf.Future.set_result, cf.Future.set_exception

    def set_result(self, result):
        o_res(self, result)
        if isinstance(result, tuple) and len(result) == 2:
            delivered[(result[1] // 10) if isinstance(result[1], int) else None].set()

    def set_exception(self, exc):
        o_exc(self, exc)
        if isinstance(exc, Boom):
            delivered[exc.args[0]].set()

    cf.Future.set_result, cf.Future.set_exception = set_result, set_exception
    obs = {'result': None, 'exc': None, 'drift': []}

    def controller():
        for a, i in steps:
            if a == 'start':
                if not started[i].wait(10):
                    obs['drift'].append(f'element {i} was not started when the behaviour says so')
                    break
            elif a == 'complete':
                release[i].set()
                if not delivered[i].wait(10):
                    obs['drift'].append(f'completion of {i} was not delivered')
                    break
        for i in range(1, n + 1):
            release[i].set()

    ct = threading.Thread(target=controller, daemon=True)
    ct.start()
    xs = list(range(1, n + 1))
    try:
        if which == 'threading':
            obs['result'] = tct.parallel_map(f, xs if par.get('as_list', True) else iter(xs), threads=par['threads'],
                                             sort=par['sort'], use_tqdm=False, chunksize=par['chunksize'])
        else:
            obs['result'] = tci.parallel_map(f, xs, threads=par['threads'])
    except Boom as e:
        obs['exc'] = f'Boom({e.args[0]})'
    except Exception as e:  # noqa
        obs['exc'] = f'{type(e).__name__}: {e}'[:200]
    finally:
        cf.Future.set_result, cf.Future.set_exception = o_res, o_exc
    ct.join(5)
    obs['calls'] = dict(calls)
    return obs


def one(job):
    idx, which, par, steps, final = job
    try:
        obs = run_forked(drive, which, par, steps, timeout=60)
    except Exception as e:  # noqa
        return idx, [('harness', f'{type(e).__name__}: {e}'[:400])]
    bad = []
    label = f"{which}.parallel_map(n={par['n']}, threads={par['threads']}, chunksize={par['chunksize']}, sort={par['sort']}, " \
            f"raise_at={par['raiseat']}) with completion order {[i for a, i in steps if a == 'complete']}"
    n = par['n']
    if final['phase'] == 'raised':
        # (a StopIteration raised inside a coroutine is re-raised by Python as RuntimeError: still an exception that
        #  propagates - what must not happen is a normal return)
        if obs['exc'] is None or ('Boom' not in obs['exc'] and not par.get('stopiter')):
            bad.append(('exception-swallowed', f'{label}: the exception of f did not propagate (got {obs["result"]}, {obs["exc"]})'))
    else:
        if obs['exc'] is not None:
            bad.append(('raised', f'{label}: raised {obs["exc"]}'))
        elif par['sort'] and obs['result'] != [i * 10 for i in range(1, n + 1)]:
            bad.append(('order', f'{label}: returned {obs["result"]}, map gives {[i * 10 for i in range(1, n + 1)]}'))
        elif not par['sort']:
            # the property: a permutation of the outputs WITHIN EACH CHUNK (the exact order is the completion order
            # only when the gatherer is already listening - not demanded)
            cs = par['chunksize']
            res = obs['result'] or []
            chunks_ok = len(res) == n and all(
                sorted(res[lo:lo + cs]) == [i * 10 for i in range(lo + 1, min(lo + cs, n) + 1)] for lo in range(0, n, cs))
            if not chunks_ok:
                bad.append(('perm', f'{label}: returned {obs["result"]}, not a permutation of the outputs within each chunk'))
        if any(obs['calls'].get(i, 0) != 1 for i in range(1, n + 1)):
            bad.append(('calls', f'{label}: f was called {obs["calls"]} (exactly once per element required)'))
    if any(v > 1 for v in obs['calls'].values()):
        bad.append(('calls', f'{label}: f was called twice for an element: {obs["calls"]}'))
    return idx, bad


def distinct_orders(paths, limit, rng):
    """one complete execution per distinct completion order (the scheduling the property quantifies over)"""
    by = {}
    for p in paths:
        key = tuple(e['act']['i'] for e in p if e['act']['a'] == 'complete')
        by.setdefault(key, p)
    keys = sorted(by)
    rng.shuffle(keys)
    # always include the fully reversed order of every chunk, the classic victim of order-dependent gathering
    keys.sort(key=lambda k: 0 if list(k) == sorted(k, reverse=True) else 1)
    return [by[k] for k in keys[:limit]]


def all_paths(edges, inits, limit, rng):
    """maximal paths of the (acyclic) behaviour graph: complete executions"""
    out_e = defaultdict(list)
    for e in edges:
        out_e[json.dumps(e['from'], sort_keys=True)].append(e)
    paths = []
    for st in inits:
        stack = [(json.dumps(st, sort_keys=True), [])]
        while stack and len(paths) < limit:
            key, path = stack.pop()
            outs = out_e.get(key, [])
            if not outs:
                paths.append(path)
                continue
            outs = list(outs)
            rng.shuffle(outs)
            for e in outs:
                stack.append((json.dumps(e['to'], sort_keys=True), path + [e]))
    return paths


def chunk_cases(_):
    from taskchain.utils.iter import chunked

    bad = []
    n_cases = 0
    for n in range(0, 10):
        for size in range(1, 6):
            for kind in ('list', 'gen', 'range'):
                xs = list(range(n))
                src = xs if kind == 'list' else ((x for x in xs) if kind == 'gen' else range(n))
                got = list(chunked(src, size))
                want = [xs[i:i + size] for i in range(0, n, size)]
                n_cases += 1
                if [list(c) for c in got] != want:
                    bad.append(('chunked', f'chunked({kind} of {n}, {size}) = {got}, expected {want}'))
    return n_cases, bad


def value_cases(_):
    """The specification's elements and outputs are abstract: here they are realised as the values a map may carry -
    None, falsy values, exception OBJECTS returned (not raised) by f, containers - for every thread count / chunk size."""
    from taskchain.utils import iter as tci
    from taskchain.utils import threading as tct
    from taskchain.utils.iter import chunked

    err = ValueError('an exception object used as a value')
    menu = [None, 0, False, '', (), 1, 'x', err, [None], {'k': None}]
    bad = []
    n_cases = 0

    def same(a, b):
        return len(a) == len(b) and all((x is y) or (type(x) is type(y) and x == y) for x, y in zip(a, b))
    for n in (0, 1, 2, 3, 5, 7):
        for rot in range(3):
            xs = [menu[(i * 3 + rot) % len(menu)] for i in range(n)]
            for size in (1, 2, 3, 4):
                n_cases += 1
                got = [list(c) for c in chunked(list(xs), size)]
                want = [xs[i:i + size] for i in range(0, n, size)]
                if len(got) != len(want) or not all(same(g, w) for g, w in zip(got, want)):
                    bad.append(('chunked-values', f'chunked({xs!r}, {size}) = {got!r}, expected {want!r}'))
            outs = {id(x): menu[(i + 4) % len(menu)] for i, x in enumerate(menu)}
            for fname, f in (('identity', lambda x: x), ('menu', lambda x: outs[id(x)])):
                want = [f(x) for x in xs]
                for threads in (1, 2, 4):
                    for cs in (1, 2, 100):
                        n_cases += 1
                        try:
                            got = tct.parallel_map(f, list(xs), threads=threads, sort=True, use_tqdm=False, chunksize=cs)
                        except Exception as e:  # noqa
                            got = e
                        if isinstance(got, Exception) or not same(list(got), want):
                            bad.append(('values', f'threading.parallel_map({fname}, {xs!r}, threads={threads}, chunksize={cs}) '
                                                  f'gave {got!r}, map gives {want!r}'))
                    n_cases += 1
                    try:
                        got = tci.parallel_map(f, list(xs), threads=threads)
                    except Exception as e:  # noqa
                        got = e
                    if isinstance(got, Exception) or not same(list(got), want):
                        bad.append(('values', f'iter.parallel_map({fname}, {xs!r}, threads={threads}) gave {got!r}, map gives {want!r}'))
    return n_cases, bad


def run(ctx):
    quick = ctx.quick()
    ns = [0, 1, 2, 3, 4] if quick else [0, 1, 2, 3, 4, 5]
    mod, cfg = mc(ns + ([5] if quick else [6]), False)
    res = run_tlc('MCParMap', cfg_text=cfg, extra_files={'MCParMap.tla': mod}, workers=16, timeout=3000, coverage=True)
    account(ctx, res, f'ParMap n in {ns}+ x threads 1-3 x chunk sizes x sort x raising element: all completion orders')
    mod, cfg = mc(ns, True)
    res = run_tlc('MCParMap', cfg_text=cfg, extra_files={'MCParMap.tla': mod}, workers=8, timeout=3000)
    account(ctx, res, 'ParMap edge export')
    edges, inits = res.by_tag('E'), [e['st'] for e in res.by_tag('I')]
    by_par = defaultdict(lambda: ([], []))
    for e in edges:
        by_par[json.dumps(e['from']['par'], sort_keys=True)][0].append(e)
    for st in inits:
        by_par[json.dumps(st['par'], sort_keys=True)][1].append(st)
    jobs = []
    per = 8 if quick else 200
    for pk, (es, ins) in sorted(by_par.items()):
        par = json.loads(pk)
        for path in distinct_orders(all_paths(es, ins, 3000, ctx.rng), per, ctx.rng):
            steps = [(e['act']['a'], e['act']['i']) for e in path]
            final = path[-1]['to'] if path else ins[0]
            jobs.append((len(jobs), 'threading', par, steps, final))
            if par['raiseat'] and len(jobs) % 3 == 0:
                jobs.append((len(jobs), 'threading', dict(par, stopiter=True), steps, final))
            if par['chunksize'] >= max(par['n'], 1) and par['sort'] and par['chunksize'] == 6:
                jobs.append((len(jobs), 'iter', par, steps, final))
    out = pmap(one, jobs, workers=12)
    ctx.traces += len(jobs)
    ctx.extra['parameter_points'] = len(by_par)
    for idx, bad in out:
        j = jobs[idx]
        ctx.case(json.dumps([j[1], j[2], j[3]]), nontrivial=j[2]['n'] > 1)
        for cls, text in bad:
            if cls == 'harness':
                raise MachineryError(text)
            ctx.report(f'{j[1]}:{cls}', text, detail={'par': j[2], 'steps': j[3]})
    ncase, bad = run_forked(chunk_cases, None)
    ctx.traces += ncase
    for cls, text in bad:
        ctx.report(cls, text)
    ncase, bad = run_forked(value_cases, None)
    ctx.traces += ncase
    ctx.extra['value_realisations'] = ncase
    seen = set()
    for cls, text in bad:
        if (cls, text[:60]) not in seen:
            seen.add((cls, text[:60]))
            ctx.report(cls, text)
    for j in jobs[:2] + jobs[-2:]:
        ctx.sample({'function': j[1], 'par': j[2], 'schedule': j[3]})
    ctx.assumptions += ['completion order is dictated by gating the mapped function and observing Future.set_result']
