"""C02 - storage location depends only on what goes into the computation (specs/KeyScheme.tla).

In the specification the key is a function of the computation descriptor alone (persisted parameter values and
input keys).  The binding realises every enumerated case in many computation-preserving ways - renamed / moved
files, YAML, namespaces (single, nested, double mount), permuted declarations and mapping keys, values moved to
contexts (dict, file list, for_namespaces), ignored / default-valued parameters added or omitted, different
global_vars behind placeholders - and requires every realisation to yield the key of the specification.
Two fresh interpreters with different PYTHONHASHSEED compute the keys of the object menu."""
import json
import os
import subprocess
import sys

from .. import key_check
from ..core import MachineryError, REPO, VERIF
from ..procs import pmap


HASHSEED_PROG = r'''
import json, sys, os, random, tempfile, warnings, logging
warnings.filterwarnings('ignore'); logging.getLogger().setLevel(logging.ERROR)
sys.path.insert(0, %(harness)r); sys.path.insert(0, %(src)r)
os.environ['TQDM_DISABLE'] = '1'
from pathlib import Path
from tcverif import key_check
key_check.module()
out = {}
vals = json.loads(sys.stdin.read())
for i, x in enumerate(vals):
    d = tempfile.mkdtemp()
    chain, pre = key_check.realise('file', x, 5, 1, Path(d) / 'data', Path(d) / 'w', random.Random(i), global_vars={})
    out[str(i)] = {t: chain[n].name_for_persistence for t, n in key_check.TASKNAME.items()}
print('@@' + json.dumps(out))
'''


def hashseed_keys(vals, seed):
    env = dict(os.environ, PYTHONHASHSEED=str(seed))
    prog = HASHSEED_PROG % {'harness': str(VERIF / 'harness'), 'src': f'{REPO}/src'}
    p = subprocess.run([sys.executable, '-c', prog], input=json.dumps(vals), env=env, capture_output=True, text=True,
                       timeout=600)
    line = next((l for l in p.stdout.splitlines() if l.startswith('@@')), None)
    if line is None:
        raise MachineryError(f'hash-seed subprocess failed: {p.stderr[-800:]}')
    return json.loads(line[2:])


def run(ctx):
    cases = key_check.enumerate_cases(ctx, 1 if ctx.quick() else 2)
    key_check.module()
    if ctx.quick():
        head = [c for i, c in enumerate(cases) if i < 200]
        rest = ctx.rng.sample(cases[200:], 400)
        todo = head + rest
    else:
        todo = cases[:3000] + ctx.rng.sample(cases[3000:], min(9000, max(0, len(cases) - 3000)))
    out = pmap(key_check.observe, [(i, c, key_check.VARIANTS, ctx.seed) for i, c in enumerate(todo)])
    ctx.traces += len(todo) * len(key_check.VARIANTS)
    ctx.extra['realisations_per_case'] = key_check.VARIANTS
    for idx, bad, info in out:
        c = todo[idx]
        ctx.case(c['repr'] + f"|{c['yv']}{c['zv']}", nontrivial=True)
        for cat, sig, what in bad:
            if cat == 'harness':
                raise MachineryError(what)
            if cat in ('rewrite',):
                ctx.report(sig, what, detail=c)
            else:
                ctx.note(f'{cat} divergence (belongs to C12): {what[:160]}')
    # ---- mapping keys of object kwargs permuted (object definitions are mappings too)
    perm = [
        ({'class': f'{key_check.MODULE}.KPlain', 'kwargs': {'k': 1, 'j': 1}},
         {'class': f'{key_check.MODULE}.KPlain', 'kwargs': {'j': 1, 'k': 1}}, 'object-kwargs-order'),
        ({'class': f'{key_check.MODULE}.KAuto', 'kwargs': {'a': 1, 'b': 3}},
         {'class': f'{key_check.MODULE}.KAuto', 'kwargs': {'b': 3, 'a': 1}}, 'auto-kwargs-order'),
        ({'class': f'{key_check.MODULE}.KAuto', 'kwargs': {'a': 1}},
         {'class': f'{key_check.MODULE}.KAuto', 'kwargs': {'a': 1, 'verbose': True}}, 'auto-ignored-arg'),
    ]
    k1 = hashseed_keys([p[0] for p in perm] + [p[1] for p in perm], 0)
    for i, (_, _, label) in enumerate(perm):
        if k1[str(i)] != k1[str(i + len(perm))]:
            ctx.report(f'permute:{label}', f'permuting / adding ignored arguments of an object definition changes the '
                                           f'location: {perm[i][0]} vs {perm[i][1]}')
    # ---- the process that builds the chain: two interpreters, different PYTHONHASHSEED
    objs = [key_check.to_py(c['va']) for c in cases if c['va']['t'] in ('auto', 'inst', 'dict', 'rstr')][:120]
    objs.append({'class': f'{key_check.MODULE}.KAutoSet', 'kwargs': {'s': ['p', 'q', 'r', 's', 't']}})
    a, b = hashseed_keys(objs, 1), hashseed_keys(objs, 2)
    ctx.traces += 2 * len(objs)
    for i, x in enumerate(objs):
        if a[str(i)] != b[str(i)]:
            is_set = isinstance(x, dict) and str(x.get('class', '')).endswith('KAutoSet')
            ctx.report('hashseed:set-valued-object-argument' if is_set else f'hashseed:{json.dumps(x)[:80]}',
                       f'location of a task configured with {x!r} differs between two interpreters '
                       f'(PYTHONHASHSEED 1 vs 2): {a[str(i)]["a"]} vs {b[str(i)]["a"]}')
    for c in todo[:2] + todo[-2:]:
        ctx.sample({'x': key_check.to_py(c['va']), 'y': c['yv'], 'z': c['zv'], 'realisations': key_check.VARIANTS})
    ctx.assumptions += ['H = sha256(text)[:32] computed by hashlib',
                        'parameter objects come from a menu of three generated classes']
