"""C01 - a chain never returns a stale or foreign result."""
from ..store_check import scaled, run_families

RELEVANT = {'value', 'error', 'visible'}


def plans(quick):
    if quick:
        return [
            dict(family='chain',
                 checks=[dict(steps=4, slots=2, rcs=['r1', 'r2', 'r4'])],
                 gen=dict(steps=4, slots=1, lists=[['r1'], ['r2'], ['r1', 'r4']]), cover_limit=150, walks=40,
                 sim=dict(num=60, depth=12)),
            dict(family='mounts',
                 checks=[dict(steps=4, slots=2)],
                 gen=dict(steps=4, slots=1, lists=[['u1'], ['m12'], ['c21'], ['p21']]), cover_limit=150, walks=40,
                 sim=dict(num=60, depth=12)),
            dict(family='kinds', opts={'gens': True},
                 gen=dict(steps=3, slots=1, lists=[['k1'], ['k1', 'k2']], fail=False), cover_limit=80, walks=30,
                 sim=dict(num=60, depth=10)),
            # a task reading from the namespace mounted below it; the inner pipeline is a configuration of its own
            dict(family='levels',
                 checks=[dict(steps=4, slots=2, rcs=['v1', 'v2'])],
                 gen=dict(steps=4, slots=1, lists=[['v2'], ['v3'], ['v1', 'v2'], ['v4'], ['s12'], ['s21']]), cover_limit=160, walks=50,
                 sim=dict(num=60, depth=12)),
            # ~pattern inputs and optional inputs that some configurations provide and others do not
            dict(family='wiring',
                 gen=dict(steps=4, slots=1, lists=[['w1'], ['w3'], ['w4'], ['w1', 'w2'], ['w2', 'w4']]), cover_limit=120, walks=40,
                 sim=dict(num=60, depth=12)),
        ]
    return scaled(plans(True), 3)


def run(ctx):
    ctx.assumptions += [
        'task computations are deterministic functions of declared parameters and inputs (generated tasks)',
        'SHA-256 truncated to 128 bits is collision free',
    ]
    run_families(ctx, plans(ctx.quick()), RELEVANT)
