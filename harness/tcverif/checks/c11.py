"""C11 - placeholders are substituted everywhere, once, and nothing else changes (specs/Placeholders.tla)."""
import copy
import json
import os
import shutil
from pathlib import Path

from ..core import MachineryError, scratch
from ..procs import pmap, run_forked
from ..tlc import account, run_tlc, tla

ALPHABET = ['{', '}', 'A', 'B', 'x']
GVS = [
    [],
    [('A', 'v')],
    [('A', 'v'), ('B', 'w')],
    [('A', '{B}'), ('B', 'w')],
    [('AB', 'z'), ('A', '')],
]


def chars(t):
    return '<<' + ', '.join(tla(c) for c in t) + '>>'


def mc(maxlen, emit=True, inv='SubstConforms'):
    gvs = '<<' + ', '.join('<<' + ', '.join(f'<<{chars(n)}, {chars(v)}>>' for n, v in gv) + '>>' for gv in GVS) + '>>'
    mod = ('---- MODULE MCPlaceholders ----\nEXTENDS Placeholders\n'
           f'c_Alphabet == {tla(set(ALPHABET))}\nc_GVs == {gvs}\n====\n')
    cfg = (f'CONSTANTS\n  Alphabet <- c_Alphabet\n  GVs <- c_GVs\n  MaxLen = {maxlen}\n  Emit = {"TRUE" if emit else "FALSE"}\n'
           f'INIT Init\nNEXT Next\nINVARIANT {inv}\nINVARIANT UntouchedWithoutDefined\nINVARIANT EmitCase\n')
    return mod, cfg


class GVObj:
    pass


def gv_variants(g):
    """global_vars as a mapping, as an object with instance attributes, with CLASS attributes (e.g. a settings class or
    module-like object) and with properties"""
    d = {n: v for n, v in GVS[g - 1]}
    o = GVObj()
    for n, v in d.items():
        setattr(o, n, v)
    cls_obj = type('GVClassAttrs', (), dict(d))()
    prop_obj = type('GVProps', (), {n: property(lambda self, _v=v: _v) for n, v in d.items()})()
    return [('dict', d), ('object', o), ('object with class attributes', cls_obj), ('object with properties', prop_obj)]


def batch(job):
    """a batch of cases on the real function; returns [(sig, text)]"""
    cases, = job
    from taskchain.utils.data import ReprStr, search_and_replace_placeholders

    bad = []
    for c in cases:
        s, want = c['s'], c['out']
        for kind, gv in gv_variants(c['g']):
            r = search_and_replace_placeholders(s, gv)
            label = f'search_and_replace_placeholders({s!r}, {kind} {dict(GVS[c["g"] - 1])})'
            if str(r) != want:
                cls = 'nested-brace' if c['lazy'] == str(r) and c['lazy'] != want else 'value'
                bad.append((f'{cls}', f'{label} = {str(r)!r}, every defined {{NAME}} replaced once gives {want!r}'))
                continue
            if want != s:
                if type(r) is not ReprStr or repr(r) != repr(s):
                    bad.append(('repr', f'{label}: representation for persistence is {r!r}, the placeholder form is {s!r}'))
                    continue
                if not (r == want and isinstance(r, str) and r + '' == want and len(r) == len(want) and hash(r) == hash(want)):
                    bad.append(('not-a-str', f'{label}: the result does not behave as the ordinary string {want!r}'))
            r2 = search_and_replace_placeholders(r, gv)
            if str(r2) != want or repr(r2) != repr(r):
                bad.append(('idempotence', f'{label}: applying the substitution again gives {str(r2)!r} / {r2!r}'))
            # copies keep value and representation
            for how, cp in (('copy', copy.copy(r)), ('deepcopy', copy.deepcopy(r)), ('deepcopy-in-list', copy.deepcopy([r])[0])):
                if str(cp) != want or repr(cp) != repr(r):
                    bad.append((f'copy:{how}', f'{label}: after {how} the string is {str(cp)!r} with representation {cp!r}, '
                                               f'expected {want!r} / {r!r}'))
                    break
            # structures: every string at any depth, keys and non-strings untouched
            if kind == 'dict':
                five, f, t = 5, 1.5, True
                data = {'k': [s, {s: s, 'deep': [[s]]}], 'n': five, 'f': f, 'none': None, 't': t, s + '!': 'plain'}
                out = search_and_replace_placeholders(data, gv)
                ok = (out is data and out['k'][0] == want and out['k'][1][s] == want and out['k'][1]['deep'][0][0] == want
                      and s in out['k'][1] and (s + '!') in out and out['n'] is five and out['f'] is f and out['none'] is None
                      and out['t'] is t and out[s + '!'] == 'plain')
                if not ok:
                    bad.append(('structure', f'{label} inside a nested structure gave {out!r}'))
    # two substituted strings with the SAME text but different placeholder forms (and an ordinary string of that text)
    # inside one structure: one deepcopy keeps every representation apart
    by_out = {}
    for c in cases:
        if c['out'] != c['s']:
            by_out.setdefault((c['g'], c['out']), []).append(c['s'])
    for (g, out), forms in by_out.items():
        gv = dict(GVS[g - 1])
        rs = [search_and_replace_placeholders(f, gv) for f in forms[:3]]
        data = {'l': list(rs) + [out], 'again': list(rs)}
        cp = copy.deepcopy(data)
        got = [repr(x) for x in cp['l']] + [repr(x) for x in cp['again']]
        exp = [repr(f) for f in forms[:3]] + [repr(out)] + [repr(f) for f in forms[:3]]
        if got != exp or [str(x) for x in cp['l']] != [out] * (len(rs) + 1):
            bad.append(('copy:deepcopy-of-equal-texts', f'deepcopy of a structure holding the substituted forms {forms[:3]} '
                                                        f'(all reading {out!r} under {gv}) and the plain string gives '
                                                        f'representations {got}, expected {exp}'))
    return bad


def through_config(_):
    """uses paths, context values, object arguments, parameters of tasks, deepcopy(config)"""
    from taskchain import Config, Task
    from taskchain.parameter import Parameter
    from taskchain.utils.data import ReprStr

    root = scratch(f'c11-{os.getpid()}')
    bad = []
    try:
        class Holder:
            def __init__(self, path, opt=None):
                self.path, self.opt = path, opt

        import sys
        import types
        mod = types.ModuleType('vgen_c11')
        Holder.__module__ = 'vgen_c11'
        mod.Holder = Holder

        class PTask(Task):
            class Meta:
                parameters = [Parameter('p'), Parameter('lst', default=None), Parameter('ps', dtype=str, default='-')]

            def run(self, p, lst, ps) -> dict:
                return {'p': p}
        PTask.__module__ = 'vgen_c11'
        mod.PTask = PTask
        sys.modules['vgen_c11'] = mod
        (root / 'sub').mkdir(parents=True)
        (root / 'sub' / 'other.json').write_text(json.dumps({'q': '{A}-q', 'tasks': []}))
        main = root / 'main.json'
        main.write_text(json.dumps({'uses': '{DIR}/other.json as o', 'tasks': ['vgen_c11.PTask'], 'p': 'pre{A}/{UNDEF}/{B}', 'ps': '{A}-typed',
                                    'lst': ['{A}', {'in': '{B}{B}'}],
                                    'obj': {'class': 'vgen_c11.Holder', 'args': ['{A}/file'], 'kwargs': {'opt': ['{B}']}}}))
        gv = {'A': 'a-val', 'B': 'b-val', 'DIR': str(root / 'sub')}
        cfg = Config(root / 'data', main, global_vars=gv, context={'ctxp': '{A}+{B}', 'for_namespaces': {'o': {'q2': '{B}!'}}})
        chain = cfg.chain()
        t = chain['p']
        checks = [
            ('data string', cfg['p'], 'prea-val/{UNDEF}/b-val', "'pre{A}/{UNDEF}/{B}'"),
            ('list item', cfg['lst'][0], 'a-val', "'{A}'"),
            ('nested mapping value', cfg['lst'][1]['in'], 'b-valb-val', "'{B}{B}'"),
            ('context value', cfg['ctxp'], 'a-val+b-val', "'{A}+{B}'"),
            ('parameter value', t.params['p'], 'prea-val/{UNDEF}/b-val', "'pre{A}/{UNDEF}/{B}'"),
            ('object argument', cfg['obj'].path, 'a-val/file', "'{A}/file'"),
            ('object kwarg item', cfg['obj'].opt[0], 'b-val', "'{B}'"),
        ]
        used = [c for n, c in chain._configs.items() if c.namespace == 'o']
        if not used:
            bad.append(('uses-path', 'a `uses` path containing a placeholder was not resolved'))
        else:
            checks.append(('used config value', used[0]['q'], 'a-val-q', "'{A}-q'"))
            checks.append(('namespace context value', used[0]['q2'], 'b-val!', "'{B}!'"))
        for what, got, val, rep in checks:
            if str(got) != val or repr(got) != rep:
                bad.append((f'config:{what}', f'{what}: got {str(got)!r} with representation {got!r}, expected {val!r} / {rep}'))
        prm = t.params._parameters['p']
        if prm.value_repr() != "'pre{A}/{UNDEF}/{B}'":
            bad.append(('config:param-repr', f'persistence representation of the parameter is {prm.value_repr()!r}'))
        prs = t.params._parameters['ps']     # a parameter declared dtype=str: substituted value, placeholder representation
        if str(t.params['ps']) != 'a-val-typed' or prs.value_repr() != "'{A}-typed'":
            bad.append(('config:param-repr', f'a dtype=str parameter has value {t.params["ps"]!r} and persistence representation '
                                             f"{prs.value_repr()!r}, expected 'a-val-typed' / \"'{{A}}-typed'\""))
        c2 = copy.deepcopy(cfg)
        if str(c2['p']) != 'prea-val/{UNDEF}/b-val' or repr(c2['p']) != "'pre{A}/{UNDEF}/{B}'":
            bad.append(('copy:config', f'after deepcopy(config) the value is {str(c2["p"])!r} with representation {c2["p"]!r}'))
        # a `uses` entry given as a Config object (re-prepared by the chain with the chain's context)
        used_obj = Config(root / 'data', name='usedobj', data={'tasks': [], 'r': '{A}:r'}, namespace='uo', global_vars=gv)
        top = Config(root / 'data', name='top', data={'uses': [used_obj], 'tasks': []}, global_vars=gv,
                     context={'for_namespaces': {'uo': {'r2': '{B}:ctx'}}, 'r3': '{A}{B}'})
        ch2 = top.chain()
        uo = [c for c in ch2._configs.values() if c.namespace == 'uo'][0]
        for what, got, val, rep in (('value of a used Config object', uo['r'], 'a-val:r', "'{A}:r'"),
                                    ('context value merged into a used Config object', uo['r2'], 'b-val:ctx', "'{B}:ctx'"),
                                    ('global context value in a used Config object', uo['r3'], 'a-valb-val', "'{A}{B}'")):
            if str(got) != val or repr(got) != rep:
                bad.append((f'config:{what}', f'{what}: got {str(got)!r} with representation {got!r}, expected {val!r} / {rep}'))
        # contexts nested two levels deep, every `uses` path with a placeholder
        (root / 'c3.json').write_text(json.dumps({'deep': '{B}-deep'}))
        (root / 'c2.json').write_text(json.dumps({'mid': '{A}-mid', 'uses': ['{ROOT}/c3.json as m']}))
        (root / 'c1.json').write_text(json.dumps({'topc': 1, 'uses': '{ROOT}/c2.json as n'}))    # (a single string, not a list)
        gv2 = dict(gv, ROOT=str(root))
        (root / 'plain2.json').write_text(json.dumps({'tasks': []}))
        (root / 'plain.json').write_text(json.dumps({'tasks': [], 'uses': [f'{root}/plain2.json as m']}))
        try:
            cn = Config(root / 'data', name='nested', data={'tasks': [], 'uses': [f'{root}/plain.json as n', ]},
                        global_vars=gv2, context=str(root / 'c1.json'))
            chn = cn.chain()
            cfgn = [c for c in chn._configs.values() if c.namespace == 'n'][0]
            if str(cfgn.get('mid')) != 'a-val-mid':
                bad.append(('config:nested-context', f"value from a context used `as n`: {cfgn.get('mid')!r}, expected 'a-val-mid'"))
            cfgnm = [c for c in chn._configs.values() if c.namespace == 'n::m'][0]
            if str(cfgnm.get('deep')) != 'b-val-deep':
                bad.append(('config:nested-context', f"value from a context used two levels deep (`... as n` using `... as m`) "
                                                     f"seen by the config mounted at n::m: {cfgnm.get('deep')!r}, expected 'b-val-deep'"))
        except Exception as e:  # noqa
            bad.append(('config:nested-context', f'contexts nested two levels with placeholders in their `uses` paths failed: '
                                                 f'{type(e).__name__}: {e}'))
        # ONE Context object used for two configs with different global_vars (strings nested in lists / mappings of
        # the global and of the namespace part): each config gets its own substitution, the Context is not changed
        from taskchain.config import Context
        cdata = {'top': ['{A}-t', {'k': '{B}-k'}], 'for_namespaces': {'o': {'nested': ['{A}-n', {'k': ['{B}-kk']}]}}}
        cobj = Context.prepare_context(copy.deepcopy(cdata))
        before = (copy.deepcopy(cobj.data), copy.deepcopy(cobj.for_namespaces))
        for gvx in (gv, {**gv, 'A': 'second', 'B': 'zwei'}):
            cx = Config(root / 'data', main, global_vars=gvx, context=cobj)
            chx = cx.chain()
            ox = [c for c in chx._configs.values() if c.namespace == 'o'][0]
            for what, got, val in (('global context list item', cx['top'][0], f"{gvx['A']}-t"),
                                   ('global context nested mapping', cx['top'][1]['k'], f"{gvx['B']}-k"),
                                   ('namespace context list item', ox['nested'][0], f"{gvx['A']}-n"),
                                   ('namespace context nested list', ox['nested'][1]['k'][0], f"{gvx['B']}-kk")):
                if str(got) != val:
                    bad.append((f'config:context-reuse:{what}', f'a Context object used for a second config with other '
                                                                f'global_vars: {what} is {str(got)!r}, expected {val!r}'))
            if (cobj.data, cobj.for_namespaces) != before or repr((cobj.data, cobj.for_namespaces)) != repr(before):
                bad.append(('config:context-mutated', f"building a config changed the caller's Context object: "
                                                      f'{(cobj.data, cobj.for_namespaces)!r}'))
                break
        # a LIST of contexts one of which uses another context through a path with a placeholder
        (root / 'lc2.json').write_text(json.dumps({'from_lc2': '{B}-lc2'}))
        (root / 'lc1.json').write_text(json.dumps({'from_lc1': 1, 'uses': ['{ROOT}/lc2.json']}))
        try:
            cl = Config(root / 'data', name='ctxlist', data={'tasks': []}, global_vars=gv2,
                        context=[{'plain': '{A}-plain'}, str(root / 'lc1.json')])
            if str(cl.get('from_lc2')) != 'b-val-lc2' or str(cl.get('plain')) != 'a-val-plain':
                bad.append(('config:context-list', f"a list of contexts (one using another through a placeholder path): values "
                                                   f"{cl.get('from_lc2')!r}, {cl.get('plain')!r}"))
        except Exception as e:  # noqa
            bad.append(('config:context-list', f'a list of contexts one of which `uses` a path with a placeholder failed: '
                                               f'{type(e).__name__}: {e}'))
        # the same config under other global_vars: same persistence key, other value
        cfg_b = Config(root / 'data', main, global_vars={**gv, 'A': 'other'})
        if cfg_b.chain()['p'].name_for_persistence != t.name_for_persistence:
            bad.append(('config:key', 'the storage key depends on the value substituted for a placeholder'))
    except Exception as e:  # noqa
        import traceback
        bad.append(('harness', f'{type(e).__name__}: {e}\n{traceback.format_exc()[-800:]}'))
    finally:
        shutil.rmtree(root, ignore_errors=True)
    return bad


def run(ctx):
    quick = ctx.quick()
    maxlen = 5 if quick else 6
    mod, cfg = mc(maxlen)
    res = run_tlc('MCPlaceholders', cfg_text=cfg, extra_files={'MCPlaceholders.tla': mod}, workers=8, timeout=3000, heap='8g')
    account(ctx, res, f'Placeholders: all strings of length <= {maxlen} over {ALPHABET} x {len(GVS)} global_vars: '
                      f'SubstConforms, UntouchedWithoutDefined')
    mod2, cfg2 = mc(4, emit=False, inv='LazyConforms')
    r2 = run_tlc('MCPlaceholders', cfg_text=cfg2, extra_files={'MCPlaceholders.tla': mod2}, workers=4, timeout=600, expect_ok=False)
    ctx.tlc_runs.append({'run': "pinned regex {(.*?)} against the property (counterexample expected: nested braces)",
                         'violated': r2.invariant_violated})
    cases = res.by_tag('P')
    ctx.exhaustive = True
    n = 400
    out = pmap(batch, [(cases[i:i + n],) for i in range(0, len(cases), n)])
    ctx.traces += len(cases)
    for c in cases:
        ctx.case(f"{c['s']}|{c['g']}", nontrivial=c['out'] != c['s'])
    for bad in out:
        for sig, text in bad:
            ctx.report(sig, text)
    for sig, text in run_forked(through_config, None):
        if sig == 'harness':
            raise MachineryError(text)
        ctx.report(sig, text)
    for c in [c for c in cases if c['out'] != c['s']][:3] + cases[-2:]:
        ctx.sample({'string': c['s'], 'global_vars': dict(GVS[c['g'] - 1]), 'result': c['out']})
    ctx.assumptions += ['strings over the alphabet {, }, A, B, x; names A, B, AB; JSON-like containers (lists, mappings)']
