"""C20 - migration to parameter mode carries every result over unchanged (specs/Migrate.tla)."""
import contextlib
import hashlib
import io
import json
import os
import shutil
import sys
from typing import Generator
from pathlib import Path

from .. import gen
from ..core import MachineryError, scratch
from ..procs import pmap
from ..tlc import account, run_tlc, tla

MODULE = 'vgen.migrate'
TASKS = {'a': 'json', 'b': 'numpy', 'c': 'dir', 'p': 'pandas', 'g': 'generated', 'm': 'mem', 'f': 'figure', 'r': 'rep', 'v': 'voc', 'e': 'empty', 'l': 'listnpy', 'k': 'lnk'}
SLUG = {'a': 'a', 'b': 'grp:b', 'c': 'c', 'p': 'p', 'g': 'g', 'm': 'm', 'f': 'fig', 'r': 'rep', 'v': 'left::voc', 'e': 'empty', 'l': 'l', 'k': 'lnk'}


def module():
    if MODULE in sys.modules:
        return sys.modules[MODULE]
    specs = [
        dict(slug='a', cls_name='MaTask', params=[dict(name='x')], run_params=['x'], kind='json'),
        dict(slug='grp:b', cls_name='MbTask', params=[dict(name='y', default=2)], run_params=['y'], kind='numpy',
             inputs=[dict(ref='a', how='class')], pulls=['a'], input_kinds={'a': 'json'}),
        dict(slug='c', cls_name='McTask', kind='dir', inputs=[dict(ref='grp:b', how='class')], pulls=['b'], input_kinds={'b': 'numpy'}),
        dict(slug='p', cls_name='MpTask', kind='pandas', inputs=[dict(ref='a', how='name')], pulls=['a'], input_kinds={'a': 'json'}),
        dict(slug='g', cls_name='MgTask', kind='generated', inputs=[dict(ref='a', how='class')], pulls=['a'], input_kinds={'a': 'json'}),
        dict(slug='m', cls_name='MmTask', kind='mem', inputs=[dict(ref='a', how='class')], pulls=['a'], input_kinds={'a': 'json'}),
        # a directory result that is not a DirData (list of arrays)
        dict(slug='l', cls_name='MlTask', kind='listnpy', inputs=[dict(ref='a', how='class')], pulls=['a'], input_kinds={'a': 'json'}),
    ]
    mod = gen.make_module(specs, MODULE)
    import pylab
    from taskchain import Task
    from taskchain.data import ContinuesData
    from taskchain.parameter import Parameter

    class FigTask(Task):
        class Meta:
            name = 'fig'
            input_tasks = [mod.CLASSES['a']]

        def run(self, a) -> pylab.Figure:
            gen.RUNLOG.append({'slug': 'fig'})
            f = pylab.Figure()
            ax = f.add_subplot(111)
            ax.plot([1, 2, a['p']['x']])
            ax.set_title(f"title {a['p']['x']}")
            return f

    class ContTask(Task):
        class Meta:
            name = 'cont'

        def run(self) -> ContinuesData:
            gen.RUNLOG.append({'slug': 'cont'})
            d = self.get_data_object()
            for i in range(3):
                p = d.dir / f'{i}.txt'
                if not p.exists():
                    p.write_text(f'chunk {i}')
                    if i == 2:
                        d.finished()
                    break
            return d

    class VocTask(Task):
        class Meta:
            name = 'voc'
            parameters = [Parameter('w')]

        def run(self, w) -> dict:
            gen.RUNLOG.append({'slug': 'voc'})
            return {'voc': w}

    class RepTask(Task):
        class Meta:
            name = 'rep'
            input_tasks = ['left::voc', 'right::voc']

        def run(self) -> dict:
            gen.RUNLOG.append({'slug': 'rep'})
            return {'rep': [t.value for t in self.input_tasks.values()]}

    class EmptyTask(Task):
        """a generator task that legitimately yields nothing: its stored result is a file of 0 bytes"""
        class Meta:
            name = 'empty'

        def run(self) -> Generator:
            gen.RUNLOG.append({'slug': 'empty'})
            return (x for x in [])

    from taskchain.data import DirData

    class LnkTask(Task):
        """a directory result holding a RELATIVE symbolic link that points out of the directory (to the stored input)"""
        class Meta:
            name = 'lnk'
            input_tasks = [mod.CLASSES['g']]      # (g is stored in every case: the link never dangles in the source)

        def run(self, g) -> DirData:
            gen.RUNLOG.append({'slug': 'lnk'})
            d = self.get_data_object()
            (d.dir / 'copy.txt').write_text(f'items={len(list(g))}')
            target = self.input_tasks['g'].data_path
            os.symlink(os.path.relpath(target, d.dir), d.dir / 'ref.jsonl')
            return d

    class FailDirTask(Task):
        """a directory task that fails after writing: its partial output is set aside in the source (<config>_error)"""
        class Meta:
            name = 'faildir'

        def run(self) -> DirData:
            d = self.get_data_object()
            (d.dir / 'page_0.html').write_text('partial')
            raise RuntimeError('rendering failed')

    for c in (FigTask, ContTask, VocTask, RepTask, EmptyTask, LnkTask, FailDirTask):
        c.__module__ = MODULE
        setattr(mod, c.__name__, c)
    return mod


def files(root):
    out = {}
    for p in sorted(Path(root).rglob('*')):
        if p.is_file():
            out[str(p.relative_to(root))] = hashlib.sha1(p.read_bytes()).hexdigest()
    return out


def results_only(h):
    return {k: v for k, v in h.items() if not k.endswith(('.log', '.run_info.yaml'))}


def one(job):
    idx, case = job
    from taskchain import Config
    from taskchain.utils.migration import migrate_to_parameter_mode

    module()
    root = scratch(f'c20-{os.getpid()}') / f'm{idx}'
    bad = []
    label = f"stored before: {sorted(case['src'])}, migrations: {case['hist']}"
    try:
        root.mkdir(parents=True)
        cfgf = root / 'my_config.json'
        vf, vf2 = root / 'v.json', root / 'v_other.json'
        vf.write_text(json.dumps({'tasks': [f'{MODULE}.VocTask'], 'w': 9}))
        vf2.write_text(json.dumps({'tasks': [f'{MODULE}.VocTask'], 'w': 9}))
        # the two mounts hold the same computation, declared by one file (even cases) or by two files (odd cases)
        doc = {'tasks': [f'{MODULE}.M{t}Task' for t in 'abcpgml'] + [f'{MODULE}.FigTask', f'{MODULE}.ContTask',
                                                                     f'{MODULE}.RepTask', f'{MODULE}.EmptyTask', f'{MODULE}.LnkTask',
                                                                     f'{MODULE}.FailDirTask'],
               'x': 4, 'uses': [f'{vf} as left', f'{vf if idx % 2 == 0 else vf2} as right']}
        if idx % 3 == 2:
            # the pipeline is a PART (not the first one) of a multi-config file
            import yaml
            cfgf = root / 'multi.yaml'
            cfgf.write_text(yaml.safe_dump({'configs': {'other': {'tasks': [], 'x': 0}, 'pipe': doc}}, sort_keys=False))
            cfgf = f'{cfgf}#pipe'
        else:
            cfgf.write_text(json.dumps(doc))
        srcdir, dstdir = root / 'src', root / 'dst'
        old = Config(srcdir, cfgf).chain(parameter_mode=False)
        vals = {}
        def dec(t, v):
            if TASKS[t] == 'figure':
                return v.axes[0].get_title()
            if TASKS[t] in ('rep', 'voc'):
                return v
            if TASKS[t] == 'empty':
                return list(v)
            if TASKS[t] == 'lnk':     # the content, read THROUGH the link
                return {'copy': (Path(v) / 'copy.txt').read_text(), 'ref': (Path(v) / 'ref.jsonl').read_text()}
            return gen.decode(TASKS[t], v)
        for t in TASKS:
            vals[t] = dec(t, old[SLUG[t]].value)
        try:
            _ = old['faildir'].value
        except RuntimeError:
            pass
        _ = old['cont'].value          # a resumable task interrupted after its first chunk: progress lives in <cfg>_tmp
        progress = sorted(str(p.relative_to(srcdir)) for p in (srcdir / 'cont').rglob('*') if p.is_file() and '_tmp' in str(p))
        stored = set(case['src']) | {'g', 'p', 'e', 'l', 'k'}
        for t in TASKS:
            if TASKS[t] != 'mem' and t not in stored:
                old[SLUG[t]].force(delete_data=True)
                if t == 'v':      # (declared by two files in the odd cases: the other mount's result is another name-mode file)
                    old['right::voc'].force(delete_data=True)
        before = files(srcdir)
        for step in case['hist']:
            dst_before = files(dstdir) if dstdir.exists() else {}
            with contextlib.redirect_stdout(io.StringIO()):
                migrate_to_parameter_mode(Config(srcdir, cfgf), dstdir, dry=(step == 'dry'), verbose=(idx % 2 == 0))
            dst_after = files(dstdir) if dstdir.exists() else {}
            if step == 'dry' and results_only(dst_after) != results_only(dst_before):
                bad.append(('dry-writes', f'{label}: dry=True wrote result files: '
                                          f'{sorted(set(results_only(dst_after)) - set(results_only(dst_before)))}'))
            if step == 'real' and 'real' in case['hist'][:case['hist'].index('real')] + []:
                pass
        # second real migration must change nothing (checked on the last step when two reals occurred)
        if case['hist'].count('real') >= 1:
            snap = files(dstdir)
            with contextlib.redirect_stdout(io.StringIO()):
                migrate_to_parameter_mode(Config(srcdir, cfgf), dstdir, dry=False, verbose=False)
            if results_only(files(dstdir)) != results_only(snap):
                bad.append(('second-changes', f'{label}: a further migration changed the target'))
        now_progress = sorted(str(p.relative_to(srcdir)) for p in (srcdir / 'cont').rglob('*') if p.is_file() and '_tmp' in str(p))
        if now_progress != progress or not progress:
            bad.append(('source-modified', f'{label}: the work directory of a resumable task in the source changed: '
                                           f'{progress} -> {now_progress}'))
        if results_only(files(srcdir)) != results_only(before):
            bad.append(('source-modified', f'{label}: the source directory was modified: '
                                           f'{sorted(set(results_only(files(srcdir)).items()) ^ set(results_only(before).items()))[:4]}'))
        new = Config(dstdir, cfgf).chain()
        gen.RUNLOG.clear()
        migrated = 'real' in case['hist']
        for t, kind in TASKS.items():
            if kind == 'mem':
                continue
            want = migrated and t in (set(case['src']) | {'g', 'p', 'e', 'l', 'k'})
            has = bool(new[SLUG[t]].has_data)
            if has != want:
                bad.append(('has-data', f'{label}: after migration the target has_data({SLUG[t]}) = {has}, in name mode it was '
                                        f'{t in (set(case["src"]) | {"g", "p", "e", "l", "k"})}'))
        if migrated and not bad:
            for t in sorted(set(case['src']) | {'g', 'p', 'e', 'l', 'k'}):
                gen.RUNLOG.clear()
                v = dec(t, new[SLUG[t]].value)
                if v != vals[t]:
                    bad.append(('value', f'{label}: {SLUG[t]} loads {str(v)[:80]!r} in the target, the original is {str(vals[t])[:80]!r}'))
                if gen.RUNLOG:
                    bad.append(('runs', f'{label}: requesting migrated {SLUG[t]} ran {[e["slug"] for e in gen.RUNLOG]}'))
    except Exception as e:  # noqa
        import traceback
        bad.append(('error', f'{label}: {type(e).__name__}: {e} {traceback.format_exc()[-500:]}'))
    finally:
        shutil.rmtree(root, ignore_errors=True)
    return idx, bad


def run(ctx):
    pers = [t for t, k in TASKS.items() if k != 'mem' and t not in ('g', 'p', 'e', 'l', 'k')]   # (g, p always stored: keeps 2^n small)
    steps = 2 if ctx.quick() else 3
    mod = ('---- MODULE MCMigrate ----\nEXTENDS Migrate\n'
           f'c_Tasks == {tla(set(TASKS))}\nc_Pers == {tla(set(pers))}\n====\n')
    cfg = (f'CONSTANTS\n  Tasks <- c_Tasks\n  Persisting <- c_Pers\n  MaxSteps = {steps}\n  Emit = TRUE\nINIT Init\nNEXT Next\n'
           'INVARIANT SourceNeverModified\nINVARIANT CarriesExactly\nINVARIANT OnlyBeforeReal\nINVARIANT EmitCase\n'
           'PROPERTY DryWritesNothing\nPROPERTY SecondChangesNothing\n')
    res = run_tlc('MCMigrate', cfg_text=cfg, extra_files={'MCMigrate.tla': mod}, workers=4, timeout=600)
    account(ctx, res, f'Migrate: every subset of stored results x every sequence of {steps} dry/real migrations')
    cases = res.by_tag('M')
    ctx.exhaustive = True
    module()
    out = pmap(one, list(enumerate(cases)))
    ctx.traces += len(cases)
    for idx, bad in out:
        c = cases[idx]
        ctx.case(json.dumps([sorted(c['src']), c['hist']]), nontrivial=bool(c['src']))
        for cls, text in bad:
            ctx.report(f"{cls}:{sorted(c['src'])}:{c['hist']}" if cls == 'error' else cls, text, detail=c)
    for c in cases[:2] + cases[-2:]:
        ctx.sample(c)
    ctx.assumptions += ['"source never modified": regular result files (path, bytes) are unchanged; empty directories created by '
                        'inspection, logs and run-info files are not counted', 'file-based configs; kinds json, numpy, pandas, '
                        'generated, directory, in-memory']
