"""C15 - file caches stay consistent under concurrent use (specs/Cache.tla, PlusCal)."""
import json
import os
import shutil

from ..core import MachineryError, scratch
from ..procs import ChildCrashed, pmap, run_forked
from ..tlaparse import parse_trace_file
from ..tlc import account, run_tlc

INVS = ['ReturnsCompleted', 'QuiescentComplete', 'GetNeverComputes', 'MutualExclusion', 'NoNeedlessRecompute',
        'GetFindsStable', 'FailStoresNothing', 'EntrySurvives']


def mc(ncallers, ops=('get', 'goc', 'force'), fail=True):
    mod = (f'---- MODULE MCCache ----\nEXTENDS Cache\nc_Callers == 1..{ncallers}\n'
           f'c_Ops == {{{", ".join(chr(34) + o + chr(34) for o in ops)}}}\nc_Init == {{TRUE, FALSE}}\nc_Fail == {{{"TRUE, FALSE" if fail else "FALSE"}}}\n'
           'FairSpec == Spec /\\ \\A c \\in Callers : WF_vars(caller(c))\n====\n')
    cfg = ('CONSTANTS\n  Callers <- c_Callers\n  OpChoices <- c_Ops\n  InitPresent <- c_Init\n  FailChoices <- c_Fail\n  Emit = FALSE\n'
           'SPECIFICATION Spec\n')
    return mod, cfg


def behaviours(ctx, ncallers, num, seed):
    """complete random behaviours of the model, from TLC's simulation trace files"""
    mod, cfg = mc(ncallers)
    out = scratch(f'c15-sim{ncallers}')
    for f in out.glob('tr_*'):
        f.unlink()
    res = run_tlc('MCCache', cfg_text=cfg, extra_files={'MCCache.tla': mod}, workers=1, timeout=900,
                  simulate=f'file={out}/tr,num={num}', depth=60, seed=seed)
    behs = []
    for f in sorted(out.glob('tr_*')):
        states = [st for _, st in parse_trace_file(f.read_text())]
        f.unlink()
        if not states or not all(v == 'Done' for v in _vals(states[-1]['pc'])):
            continue
        steps = []
        for a, b in zip(states, states[1:]):
            pa, pb = _fn(a['pc']), _fn(b['pc'])
            moved = [c for c in pa if pa[c] != pb[c]]
            if len(moved) != 1:
                raise MachineryError('a step of the Cache model moved several callers')
            steps.append((int(moved[0]), pa[moved[0]]))
        behs.append({'steps': steps, 'ops': {int(k): v for k, v in _fn(states[0]['op']).items()},
                     'fails': sorted(int(k) for k, v in _fn(states[0]['fails']).items() if v),
                     'present': bool(states[0]['present']), 'final': states[-1]})
    ctx.transitions += sum(len(b['steps']) for b in behs)
    ctx.tlc_runs.append({'run': f'Cache simulate {ncallers} callers num={num}', 'behaviours': len(behs),
                         'wall_s': round(res.wall, 1)})
    return behs


def _fn(x):
    """TLC prints a function with domain 1..n as a sequence"""
    if isinstance(x, list):
        return {str(i + 1): v for i, v in enumerate(x)}
    return {str(k): v for k, v in x.items()}


def _vals(x):
    return list(_fn(x).values())


def _run_one(job):
    idx, beh = job
    from .. import cache_sched

    d = scratch(f'c15-{os.getpid()}') / f'b{idx}'
    try:
        out = run_forked(cache_sched.execute, beh['steps'], beh['ops'], beh['present'], str(d), None, 'the key', None, 'json',
                         tuple(beh.get('fails', ())), timeout=40)
    except ChildCrashed:
        out = _hung(beh['ops'])
    finally:
        shutil.rmtree(d, ignore_errors=True)
    return idx, out


def _hung(ops):
    """the controlled execution did not terminate: every caller counts as not returned"""
    return dict(results={}, file=None, drift=['execution did not terminate'], log=[], computes=[], attempted=[], hung=sorted(ops),
                facts={c: {'complete_at_start': None, 'disturbed': True, 'computed': False} for c in ops})


def _run_random(job):
    idx, ops, present, seed, kind = job[:5]
    fails = job[5] if len(job) > 5 else ()
    import random

    from .. import cache_sched

    d = scratch(f'c15-{os.getpid()}') / f'r{idx}'
    try:
        out = run_forked(cache_sched.execute, None, ops, present, str(d), None, 'the key', random.Random(seed), kind, fails,
                         timeout=40)
    except ChildCrashed:
        out = _hung(ops)
    finally:
        shutil.rmtree(d, ignore_errors=True)
    return idx, out


def _proc_job(job):
    idx, ops, fails, present, kind, seed = job
    from .. import cache_procs

    d = scratch(f'c15p-{os.getpid()}') / f'p{idx}'
    try:
        return idx, run_forked(cache_procs.run_once, str(d), ops, set(fails), present, kind, seed, timeout=60)
    except ChildCrashed as e:
        return idx, dict(ev=[], hung=sorted(ops), final=None, crashed=str(e))
    finally:
        shutil.rmtree(d, ignore_errors=True)


def process_traces(ctx):
    """free-running processes (real lock files, no scheduler): every recorded execution must be a behaviour of Cache.tla"""
    import itertools

    quick = ctx.quick()
    jobs = []
    rounds = 3 if quick else 40
    for n in (2, 3):
        for m in itertools.product(('get', 'goc', 'force'), repeat=n):
            if all(o == 'get' for o in m) and n == 3:
                continue
            for r in range(rounds):
                ops = dict(zip(range(1, n + 1), m))
                fails = tuple(c for c in ops if ops[c] != 'get' and (r + c + len(jobs)) % 4 == 0) if r % 2 else ()
                jobs.append((len(jobs), ops, fails, bool((r + len(jobs)) % 2), ('json', 'json', 'numpy', 'df')[(r + len(jobs) // 3) % 4],
                             ctx.seed * 7919 + len(jobs)))
    out = dict(pmap(_proc_job, jobs, workers=8))
    ctx.traces += len(jobs)
    ctx.extra['process_executions'] = len(jobs)
    by_n = {2: [], 3: []}
    for j in jobs:
        idx, ops, fails, present, kind, seed = j
        o = out[idx]
        label = f'processes {ops} (failing computations: {list(fails)}, entry present: {present}, {kind} cache)'
        if o['hung'] or o.get('crashed'):
            ctx.report('proc:hung', f'{label}: processes {o["hung"]} did not finish {o.get("crashed", "")}', detail={'events': o['ev']})
            continue
        for e in o['ev']:
            if e[1] == 'ret' and e[2] < 0:
                ctx.report('proc:call-failed' if e[2] == -2 else 'proc:torn-or-foreign-value',
                           f'{label}: process {e[0]} ' + (f'failed with {e[3]}' if e[2] == -2 else f'returned {e[3]!r}, not the value of a computation'),
                           detail={'events': o['ev']})
        n = len(ops)
        by_n[n].append({'present': present, 'ops': [ops[c] for c in sorted(ops)], 'fails': [c in fails for c in sorted(ops)],
                        'ev': o['ev'], 'label': label, 'final': o['final'], 'completed': [e[0] for e in o['ev'] if e[1] == 'cls']})
        done = ([0] if present else []) + [e[0] for e in o['ev'] if e[1] == 'cls']
        if done and o['final'] not in done:
            ctx.report('proc:final-file', f'{label}: at quiescence the stored entry is {o["final"]!r}, completed computations: {done}',
                       detail={'events': o['ev']})
    distinct = set()
    for n, traces in by_n.items():
        if not traces:
            continue
        data = scratch('c15-proc-traces') / f'traces{n}.json'
        data.write_text(json.dumps([{k: t[k] for k in ('present', 'ops', 'fails', 'ev')} for t in traces]))
        mod = (f'---- MODULE MCCacheTrace ----\nEXTENDS CacheTrace\nc_Callers == 1..{n}\n'
               'c_Ops == {"get", "goc", "force"}\nc_B == {TRUE, FALSE}\n====\n')
        cfg = ('CONSTANTS\n  Callers <- c_Callers\n  OpChoices <- c_Ops\n  InitPresent <- c_B\n  FailChoices <- c_B\n  Emit = FALSE\n'
               'INIT TInit\nNEXT TNext\nCONSTRAINT Reach\nPOSTCONDITION Verdicts\n' + ''.join(f'INVARIANT {i}\n' for i in INVS))
        res = run_tlc('MCCacheTrace', cfg_text=cfg, extra_files={'MCCacheTrace.tla': mod}, workers=1, timeout=1800,
                      env={'TCVERIF_TRACE_JSON': str(data)}, deadlock=False)
        account(ctx, res, f'CacheTrace: {len(traces)} executions of {n} free-running processes validated against Cache.tla '
                          f'({sum(len(t["ev"]) for t in traces)} events; all invariants at every step)')
        verdicts = {v['trace']: v for v in res.by_tag('CV')}
        if len(verdicts) != len(traces):
            raise MachineryError(f'CacheTrace returned {len(verdicts)} verdicts for {len(traces)} traces')
        for i, t in enumerate(traces, 1):
            distinct.add(json.dumps([e[:2] for e in t['ev'] if e[1] in ('acq', 'comp')] + t['ops']))
            v = verdicts[i]
            if v['matched'] < v['len']:
                k = v['matched']
                ctx.report(f"proc:trace:{t['ev'][k][1]}", f"{t['label']}: event #{k} {t['ev'][k]} is not a step of Cache.tla in the state "
                                                          f"reached by the events before it (preceding: {t['ev'][max(0, k - 6):k]})",
                           detail={'events': t['ev']})
    ctx.extra['distinct_process_interleavings'] = len(distinct)
    # binding self-test: corrupted traces must be rejected
    good = next((t for t in by_n[2] if any(e[1] == 'chk' and e[2] for e in t['ev']) and not any(e[1] == 'ret' and e[2] < 0 for e in t['ev'])), None)
    if good is not None:
        import copy
        muts = []
        m = copy.deepcopy(good)
        i = next(i for i, e in enumerate(m['ev']) if e[1] == 'chk' and e[2])
        m['ev'][i][2] = False
        muts.append(m)                                   # exists() answer flipped
        m = copy.deepcopy(good)
        i = next(i for i, e in enumerate(m['ev']) if e[1] == 'rel')
        del m['ev'][i]
        muts.append(m)                                   # a release dropped: the next acquisition finds the lock held
        m = copy.deepcopy(good)
        i = next(i for i, e in enumerate(m['ev']) if e[1] == 'ret')
        m['ev'][i][2] = 103
        muts.append(m)                                   # a value nobody computed
        data = scratch('c15-proc-traces') / 'mut.json'
        data.write_text(json.dumps([{k: t[k] for k in ('present', 'ops', 'fails', 'ev')} for t in muts]))
        mod = ('---- MODULE MCCacheTrace ----\nEXTENDS CacheTrace\nc_Callers == 1..2\n'
               'c_Ops == {"get", "goc", "force"}\nc_B == {TRUE, FALSE}\n====\n')
        cfg = ('CONSTANTS\n  Callers <- c_Callers\n  OpChoices <- c_Ops\n  InitPresent <- c_B\n  FailChoices <- c_B\n  Emit = FALSE\n'
               'INIT TInit\nNEXT TNext\nCONSTRAINT Reach\nPOSTCONDITION Verdicts\n')
        res = run_tlc('MCCacheTrace', cfg_text=cfg, extra_files={'MCCacheTrace.tla': mod}, workers=1, timeout=600,
                      env={'TCVERIF_TRACE_JSON': str(data)}, deadlock=False)
        acc = [v['trace'] for v in res.by_tag('CV') if v['matched'] >= v['len']]
        ctx.extra['process_trace_binding_selftest'] = {'corrupted_traces': len(muts), 'rejected': len(muts) - len(acc)}
        if acc:
            raise MachineryError(f'CacheTrace accepted corrupted traces {acc}')


def judge(beh, out):
    """P-level verdict on one controlled execution. Returns [(sigclass, text)]."""
    from ..cache_sched import value_of

    bad = []
    ops = beh['ops']
    done = set(out['computes']) | ({0} if beh['present'] else set())
    kind = out.get('kind', 'json')
    allowed = [value_of(w) for w in done] if kind == 'json' else [{'by': w} for w in done]
    sched = ' '.join(f'{c}:{l}' for c, l in beh['steps'])
    if out['hung']:
        bad.append(('hung', f'callers {out["hung"]} never returned (ops {ops}) under schedule {sched}'))
    fails = set(beh.get('fails', ()))
    for c, r in sorted(out['results'].items()):
        if r[0] == 'failed':
            if c not in fails or c not in out.get('attempted', []):
                bad.append(('call-failed', f'caller {c} ({ops[c]}) failed although its computation does not, schedule {sched}'))
        elif c in fails and c in out.get('attempted', []):
            bad.append(('failure-swallowed', f'caller {c} ({ops[c]}): its computation raised but the call returned {r}'))
        elif r[0] == 'exc':
            bad.append(('call-failed', f'caller {c} ({ops[c]}) failed with {r[1]} under schedule {sched}'))
        elif r[0] == 'noval' and ops[c] != 'get':
            bad.append(('noval', f'caller {c} ({ops[c]}) returned NO_VALUE'))
        elif r[0] == 'val' and r[1] not in allowed:
            bad.append(('torn-or-foreign-value', f'caller {c} ({ops[c]}) returned {str(r[1])[:80]!r}, not a value of a '
                                                  f'completed computation, under schedule {sched}'))
    if out['file'] is None and done and not out['hung']:
        bad.append(('entry-lost', f'at quiescence no entry is stored although the computations of {sorted(done)} completed '
                                  f'(callers {sorted(fails)} failed) under schedule {sched}'))
    if out['file'] is not None and kind != 'json':
        if out.get('final_ok') is False:
            bad.append(('final-file', f'[{kind}] at quiescence the stored entry is {out["file"]} - not a completed value, '
                                      f'schedule {sched}'))
    elif out['file'] is not None:
        try:
            doc = json.loads(out['file'])
            if doc.get('value') not in allowed:
                bad.append(('final-file', f'at quiescence the stored entry is {out["file"][:80]!r}'))
        except ValueError:
            bad.append(('final-file', f'at quiescence the stored entry is not a complete document: {out["file"][:80]!r} '
                                      f'under schedule {sched}'))
    for c in out.get('attempted', out['computes']):
        if ops[c] == 'get':
            bad.append(('get-computed', f'caller {c} (get) ran the computer'))
    # needless recompute, in the reading of DESIGN.md section 8, using the facts TLC recorded for this behaviour
    if beh.get('final') is None:
        # free exploration: the facts were gathered by the scheduler itself
        for c in out.get('attempted', out['computes']):
            f = out['facts'][c]
            if ops[c] == 'goc' and f['complete_at_start'] and not f['disturbed']:
                bad.append(('needless-recompute', f'caller {c} (goc) recomputed although a complete entry was stored '
                                                  f'throughout its execution, schedule {sched}'))
        return bad
    fin = beh['final']
    cas, dist = _fn(fin['completeAtStart']), _fn(fin['disturbed'])
    if not out['drift']:
        for c in out.get('attempted', out['computes']):
            if ops[c] == 'goc' and cas[str(c)] and not dist[str(c)]:
                bad.append(('needless-recompute', f'caller {c} (goc) recomputed although a complete entry was stored '
                                                  f'throughout its execution, schedule {sched}'))
        exp_comp = sorted(int(c) for c, v in _fn(fin['didCompute']).items() if v)
        if sorted(out.get('attempted', out['computes'])) != exp_comp:
            bad.append(('computes-differ', f'callers {sorted(out.get("attempted", out["computes"]))} computed, the model says {exp_comp}, '
                                           f'schedule {sched}'))
    return bad


def run(ctx):
    quick = ctx.quick()
    # ---- design level: exhaustive
    for n in ((2, 3) if quick else (2, 3, 4)):
        mod, cfg = mc(n, ops=('get', 'goc', 'force') if n < 4 else ('goc', 'force'), fail=(n < 4))
        cfg += ''.join(f'INVARIANT {i}\n' for i in INVS)
        if n == 2:
            cfg = cfg.replace('SPECIFICATION Spec', 'SPECIFICATION FairSpec') + 'PROPERTY Terminates\n'
        res = run_tlc('MCCache', cfg_text=cfg, extra_files={'MCCache.tla': mod}, workers=16, timeout=3000,
                      coverage=(n == 2), deadlock=False)
        account(ctx, res, f'Cache {n} callers x all operation mixes x entry present/absent: ' + ', '.join(INVS))
    # ---- binding: TLC behaviours driven through real threads
    behs = behaviours(ctx, 2, 300 if quick else 3000, ctx.seed + 1) + behaviours(ctx, 3, 300 if quick else 4000, ctx.seed + 2)
    out = pmap(_run_one, list(enumerate(behs)), workers=8)
    ctx.traces += len(behs)
    drifted = 0
    for idx, o in out:
        b = behs[idx]
        ctx.case(json.dumps([b['steps'], b['ops'], b['present']]), nontrivial=len(set(c for c, _ in b['steps'])) > 1)
        if o['drift']:
            drifted += 1
            ctx.note(f'DRIFT: {o["drift"][0]}')
        for cls, text in judge(b, o):
            ctx.report(f'{cls}', text, detail={'behaviour': b['steps'], 'ops': b['ops'], 'present': b['present'],
                                                'observed': o})
    # ---- free exploration of the implementation's own yield points (no model in the loop): seeded random schedules
    import itertools
    mixes = [dict(zip(range(1, n + 1), m)) for n in (2, 3) for m in itertools.product(('get', 'goc', 'force'), repeat=n)]
    rjobs = []
    for r in range(12 if quick else 150):
        for mi, m in enumerate(mixes):
            for present in (True, False):
                kind = ('json', 'json', 'numpy', 'df')[(r + mi) % 4]
                # every third schedule: the computations of some callers raise
                fl = tuple(c for c in m if (r + mi + c) % 3 == 0) if r % 3 == 2 else ()
                rjobs.append((len(rjobs), m, present, ctx.seed * 100003 + len(rjobs), kind, fl))
    rout = pmap(_run_random, rjobs, workers=8)
    ctx.traces += len(rjobs)
    ctx.extra['random_schedules_of_real_yield_points'] = len(rjobs)
    distinct_logs = set()
    for idx, o in rout:
        _, m, present, _, rkind, rfails = rjobs[idx]
        distinct_logs.add(json.dumps(o['log']))
        b = {'steps': o['log'], 'ops': m, 'present': present, 'final': None, 'fails': list(rfails)}
        ctx.case(json.dumps([o['log'], m, present]), nontrivial=len(m) > 1)
        for cls, text in judge(b, o):
            ctx.report(f'{cls}', text, detail={'schedule': o['log'], 'ops': m, 'present': present, 'observed': o})
    process_traces(ctx)
    ctx.extra['distinct_real_schedules'] = len(distinct_logs)
    ctx.extra['behaviours_followed_exactly'] = len(behs) - drifted
    ctx.extra['behaviours_with_drift'] = drifted
    if drifted > len(behs) // 2:
        ctx.note('more than half of the behaviours could not be followed: the implementation no longer has the yield '
                 'points of specs/Cache.tla; verdicts above are from the property-level checks only')
    for b in behs[:2] + behs[-2:]:
        ctx.sample({'ops': b['ops'], 'entry_present': b['present'], 'schedule': ' '.join(f'{c}:{l}' for c, l in b['steps'])})
    ctx.assumptions += ['filelock.FileLock is trusted', 'yield points are Python-level operations; callers are threads of '
                        'one process driven by the scheduler (processes share the same lock-file protocol)']
