"""C05 - a result is visible only when complete (failure and crash atomicity).  specs/StoreSteps.tla"""
import json
import os
import shutil
from pathlib import Path

from .. import faults, gen
from ..core import MachineryError, scratch
from ..procs import ChildCrashed, pmap, run_forked
from ..tlc import account, run_tlc

LEVEL = 'model_checking'
FAULTS = {
    'json': ['raise', 'interrupt', 'mistyped', 'unserializable'],
    'numpy': ['raise', 'interrupt', 'mistyped'],
    'pandas': ['raise', 'interrupt', 'mistyped'],
    'generated': ['raise', 'interrupt', 'unserializable', 'genraise'],
    'lazy': ['raise', 'interrupt', 'mistyped', 'unserializable', 'genraise'],
    'listnpy': ['raise', 'interrupt', 'mistyped'],
    'dir': ['raise', 'interrupt', 'mistyped'],
    'continues': ['raise', 'interrupt', 'mistyped'],
    'figure': ['raise', 'interrupt', 'mistyped'],
}


def _judge(kind, later, label):
    """The property, on what a later chain found.  Returns [(sigclass, text)]."""
    ref = faults.ref(kind)
    bad = []
    f = later['first']
    if f.get('exc'):
        what = 'visible-but-unreadable' if f.get('has_data') else 'unrecoverable'
        bad.append((what, f"{label}: a later chain {'found a result (has_data) but' if f.get('has_data') else 'found no result and'} "
                          f"could not get the value: {f['exc']}"))
    elif f['value'] != ref:
        bad.append(('visible-incomplete', f"{label}: a later chain got {str(f['value'])[:80]!r} instead of the complete value"))
    elif f['has_data'] and 'g:t' in f['runs']:
        pass  # a visible result that is recomputed is C04's business, not C05's
    s = later['second']
    if not bad and (s.get('exc') or s.get('value') != ref):
        bad.append(('unrecoverable', f"{label}: requesting the value again did not recover: {s.get('exc') or s.get('value')}"))
    fo = later.get('forced') or {}
    if not bad and (fo.get('exc') or fo.get('value') != ref):
        bad.append(('later-forced-recompute', f"{label}: a later forced recomputation fails: {fo.get('exc') or fo.get('value')}"))
    return bad


def _crash_job(job):
    """Crash before real op k (optionally with a torn prefix of the file opened by op k-1), then a later chain."""
    kind, phase, fault, pre, work, k, torn, exc_at = job
    after = isinstance(k, tuple)
    d = faults.fresh(pre, work, f'crash_{os.getpid()}')
    try:
        try:
            if after:
                run_forked(faults.attempt, kind, phase, fault, str(d), None, exc_at, k[1])
            else:
                run_forked(faults.attempt, kind, phase, fault, str(d), k, exc_at)
            died = False
        except ChildCrashed as e:
            died = os.WEXITSTATUS(e.status) == 77 if os.WIFEXITED(e.status) else False
            if not died:
                return job[:3] + (k, torn), [('harness', f'child died unexpectedly: {e}')], None
        if torn is not None:
            path, m, recdir = torn
            target = Path(d) / Path(path).relative_to(recdir)
            if target.is_file():
                data = target.read_bytes()
                with open(target, 'wb') as fh:
                    fh.write(data[:m])
        later = run_forked(faults.later_chain, kind, str(d))
        label = f'{kind}/{phase}/{fault or "ok"}: process dies ' + (f'right after file operation #{k[1]} (a rename)' if after else f'before file operation #{k}') + (
            f' with {torn[1]} bytes of {Path(torn[0]).suffix or "the file"} written' if torn else '')
        return job[:3] + (k, torn), _judge(kind, later, label), later
    finally:
        shutil.rmtree(d, ignore_errors=True)


def _oserror_job(job):
    """Operation k fails with OSError (disk full, permission ...): the request raises; asking again in the same process
    and a later chain must both recover."""
    kind, phase, pre, work, k = job
    d = faults.fresh(pre, work, f'oserr_{os.getpid()}')
    try:
        try:
            out = run_forked(faults.attempt, kind, phase, None, str(d), None, k)
        except ChildCrashed as e:
            return job, [('harness', f'child died: {e}')]
        bad = []
        label = f'{kind}/{phase}: file operation #{k} fails with OSError'
        if out['exc'] is None:
            return job, []   # the operation is not reached / its failure is tolerated: nothing to judge
        if out.get('retry_exc') or out.get('retry') != faults.ref(kind):
            bad.append(('oserror:retry', f'{label}: requesting the value again in the same process does not recover: '
                                         f"{out.get('retry_exc') or out.get('retry')}"))
        later = run_forked(faults.later_chain, kind, str(d))
        bad += [(f'oserror:{c}', t) for c, t in _judge(kind, later, label + ', then a later chain')]
        return job, bad
    finally:
        shutil.rmtree(d, ignore_errors=True)


def run(ctx):
    quick = ctx.quick()
    root = scratch('c05')
    work = root / 'work'
    work.mkdir(exist_ok=True)
    protos, recs = [], {}
    findings = []
    for kind in faults.KINDS:
        faults.module(kind)
        pre = faults.prepare(kind, root)
        for phase in ('first', 'forced'):
            for fault in [None] + FAULTS[kind]:
                rec = faults.record(kind, phase, fault, pre[phase], work)
                if (rec['exc'] is None) != (fault is None):
                    # a fault that does not fire (or a fault-free run that raises) - report, do not guess
                    findings.append((f'{kind}:{phase}:{fault}:outcome', f'{kind}/{phase}/{fault or "ok"}: request '
                                     f"{'raised ' + rec['exc'] if rec['exc'] else 'did not raise'}"))
                    continue
                aops = faults.abstract(rec['ops'], rec['final'])
                name = f'{kind}/{phase}/{fault or "ok"}'
                protos.append(faults.tla_proto(name, kind, 'absent' if phase == 'first' else 'old',
                                               'ok' if fault is None else 'fail', aops, rec['init']))
                recs[name] = (kind, phase, fault, pre[phase], rec, aops)
                ctx.sample({'protocol': name, 'ops': [f"{x['op']}({x['o']}{'->' + x['to'] if 'to' in x else ''})" for x in aops]},
                           limit=10)
                # what the failing call itself leaves behind (no crash): same-process retry + a later chain
                if fault is not None:
                    if rec.get('retry_exc') or rec.get('retry') != faults.ref(kind):
                        findings.append((f'{kind}:{phase}:{fault}:retry', f'{name}: requesting the value again in the same '
                                         f"process does not recover: {rec.get('retry_exc') or rec.get('retry')}"))
                    d = faults.fresh(pre[phase], work, 'afterfail')
                    try:
                        run_forked(_fail_only, kind, phase, fault, str(d))
                        later = run_forked(faults.later_chain, kind, str(d))
                        for cls, text in _judge(kind, later, f'{name}: after the failing call'):
                            findings.append((f'{kind}:{phase}:{fault}:{cls}', text))
                        # the same failure twice in a row (two processes) on one store: what the first one set aside is there
                        d2 = faults.fresh(pre[phase], work, 'failtwice')
                        try:
                            run_forked(faults.attempt, kind, phase, fault, str(d2), None, None, None, False)   # fails; no retry
                            second = run_forked(faults.attempt, kind, phase, fault, str(d2))
                            if fault in ('raise', 'interrupt') and second['exc'] and 'Injected' not in second['exc']:
                                findings.append((f'{kind}:{phase}:{fault}:second-failure', f'{name}: the second failing call in a '
                                                 f"row raises {second['exc']} instead of the task's own error"))
                            elif second.get('retry_exc') or second.get('retry') != faults.ref(kind):
                                findings.append((f'{kind}:{phase}:{fault}:second-failure', f'{name}: after two failing calls in a '
                                                 f"row, requesting the value again does not recover: {second.get('retry_exc') or second.get('retry')}"))
                            later2 = run_forked(faults.later_chain, kind, str(d2))
                            for cls, text in _judge(kind, later2, f'{name}: after two failing calls in a row'):
                                findings.append((f'{kind}:{phase}:{fault}:twice:{cls}', text))
                        finally:
                            shutil.rmtree(d2, ignore_errors=True)
                        listing = rec['listing']  # right after the failing call
                        if kind == 'dir':
                            if not any(x.endswith('_error') for x in listing) or any(x.endswith('_tmp') for x in listing):
                                findings.append((f'dir:{phase}:{fault}:workdir', f'{name}: the work directory of the '
                                                 f'failed run was not set aside: {listing}'))
                        if kind == 'continues' and not any(x.endswith('_tmp') for x in listing):
                            findings.append((f'continues:{phase}:{fault}:workdir', f'{name}: the work directory of the '
                                             f'resumable task was not kept: {listing}'))
                    finally:
                        shutil.rmtree(d, ignore_errors=True)
    # ---- in-memory results: nothing is stored, but "requesting the value again always recovers" holds for them too
    for mk in ('mem', 'memplain'):     # a Data object returned by run / a plain value with Meta.data_class = InMemoryData
        faults.module(mk)
        for fault in ('raise', 'interrupt', 'mistyped'):
            d = root / f'{mk}_{fault}'
            out = run_forked(faults.mem_attempt, fault, str(d), mk)
            ctx.traces += 1
            ctx.case(json.dumps([mk, fault]), nontrivial=True)
            if out['exc'] is None:
                findings.append((f'{mk}:{fault}:outcome', f'{mk}/{fault}: the failing request did not raise'))
            elif out.get('retry_exc') or out.get('retry') != faults.ref(mk) or out.get('retry_runs') != ['g:t']:
                findings.append((f'{mk}:{fault}:retry', f'{mk}/{fault}: after the run of an in-memory task failed, requesting the '
                                                        f"value again gives {out.get('retry_exc') or out.get('retry')} (runs: "
                                                        f"{out.get('retry_runs')}), expected {faults.ref(mk)} from one new run"))
    # ---- resumable results: the work directory is kept for continuation until finished (specs/Resumable.tla)
    from .. import resumable_check
    resumable_check.run(ctx, findings)
    # ---- TLC: every crash point of every recorded protocol
    mod = ('---- MODULE MCSteps ----\nEXTENDS StoreSteps\nc_Protos == <<\n  ' + ',\n  '.join(protos) + '>>\n====\n')
    cfg = ('CONSTANTS\n  Protos <- c_Protos\n  Emit = TRUE\nINIT Init\nNEXT Next\nINVARIANT DoneMeansStored\n'
           'INVARIANT FailPublishesNothing\nINVARIANT WorkDirs\nINVARIANT EmitBad\n')
    res = run_tlc('MCSteps', cfg_text=cfg, extra_files={'MCSteps.tla': mod}, workers=4, timeout=900, expect_ok=False)
    if (not res.ok and not res.invariant_violated) or 'TLC threw' in res.stdout:
        raise MachineryError('TLC failed on StoreSteps:\n' + res.stdout[-2000:])
    account(ctx, res, f'StoreSteps over {len(protos)} protocols recorded from the real code: every crash point')
    tlc_bad = {(b['proto'], b['pc'], b['phase']) for b in res.by_tag('B')}
    ctx.extra['tlc_crash_points_with_incomplete_visible_result'] = len(tlc_bad)
    if res.invariant_violated:
        import re
        m = re.search(r'name \|-> "([^"]+)"', res.stdout[res.stdout.find('is violated'):])
        st = re.findall(r'/\\ (?:p|pc|st|phase) = [^\n]*', res.stdout[res.stdout.find('is violated'):])
        findings.append((f'design:{res.invariant_violated}', f'TLC: {res.invariant_violated} is violated by a recorded '
                                                              f'protocol: {st[-4:]}'))
        ctx.extra['tlc_violated'] = res.invariant_violated
    # ---- the same crash points on the real code
    jobs = []
    for name, (kind, phase, fault, pre, rec, aops) in recs.items():
        n = len(rec['ops'])
        relevant = sorted({x['real'] for x in aops} | {x['real'] + 1 for x in aops})
        for k in relevant:
            if k <= n:
                jobs.append((kind, phase, fault, pre, work, k, None, None))
        for x in aops:
            if x['op'] == 'MV':
                jobs.append((kind, phase, fault, pre, work, ('after', x['real']), None, None))
        for x in aops:
            if x['op'] == 'WB':
                k = x['real']
                size = rec['snap'].get(k)
                if size:
                    cuts = sorted({0, 1, size // 2, size - 1}) if quick else sorted(set(range(0, size, max(1, size // 40))) | {size - 1})
                    for m in cuts:
                        jobs.append((kind, phase, fault, pre, work, k + 1, (rec['ops'][k][1], m, str(rec['dir'])), None))
    out = pmap(_crash_job, jobs)
    ctx.traces += len(jobs)
    ctx.extra['crash_points_replayed'] = sum(1 for j in jobs if j[6] is None)
    ctx.extra['crash_right_after_rename_replayed'] = sum(1 for j in jobs if isinstance(j[5], tuple))
    ctx.extra['torn_writes_replayed'] = sum(1 for j in jobs if j[6] is not None)
    real_bad = 0
    for key, bad, later in out:
        kind, phase, fault, k, torn = key
        ctx.case(json.dumps([kind, phase, fault, k, torn]), nontrivial=True)
        for cls, text in bad:
            if cls == 'harness':
                raise MachineryError(text)
            real_bad += 1
            how = 'torn-write' if torn else ('crash-after-rename' if isinstance(k, tuple) else 'crash')
            findings.append((f'{kind}:{phase}:{fault or "ok"}:{how}:{cls}', text))
    ctx.extra['real_crash_points_with_bad_outcome'] = real_bad
    # ---- fault SEQUENCES: the process that recovers dies too (recovery protocols recorded on the crashed directories)
    from .. import double_faults
    double_faults.run(ctx, recs, work, findings, _judge, sample_every=(5 if quick else 1))
    # ---- an operation that FAILS (OSError) instead of the process dying
    ojobs = []
    for name, (kind, phase, fault, pre, rec, aops) in recs.items():
        if fault is None:
            for k in sorted({x['real'] for x in aops}):
                ojobs.append((kind, phase, pre, work, k))
    oout = pmap(_oserror_job, ojobs)
    ctx.traces += len(ojobs)
    ctx.extra['failing_operations_replayed'] = len(ojobs)
    for job, bad in oout:
        ctx.case(json.dumps(['oserror', job[0], job[1], job[4]]), nontrivial=True)
        for cls, text in bad:
            if cls == 'harness':
                raise MachineryError(text)
            findings.append((f'{job[0]}:{job[1]}:{cls}', text))
    for sig, text in findings:
        ctx.report(sig, text)
    ctx.assumptions += ['crash points are Python-level file operations; a crash inside one write is represented by torn '
                        'prefixes of the file; fsync / directory-entry durability is not modelled',
                        'FigureData and H5Data are not exercised']


def _fail_only(kind, phase, fault, base):
    faults.attempt(kind, phase, fault, base)
