"""C14 - file caches return the value for the key, or recompute (specs/CacheSeq.tla)."""
import json
import os
import random
import shutil
from pathlib import Path

from ..core import MachineryError, scratch
from ..graph import Graph
from ..procs import pmap, run_forked
from ..tlc import account, run_tlc

SLOTS = ['k1', 'k2', 's/k1']
INVS = ['TypeOK', 'NeverReturnsDamage']
PROPS = ['GetNeverComputes', 'RaiseStoresNothing', 'SlotsIndependent', 'ForceReplaces', 'IntactIsServed']
KEYPOOL = ['k', 'ключ/../etc', 'a b\tc\n', '🙂' * 3, '', '"quoted\\"', 'x' * 300, '{"key": 1}']


def mc(keycheck, steps, gen):
    mod = ('---- MODULE MCCacheSeq ----\nEXTENDS CacheSeq\n'
           f'c_Slots == {{{", ".join(chr(34) + s + chr(34) for s in SLOTS)}}}\n====\n')
    cfg = (f'CONSTANTS\n  Slots <- c_Slots\n  HasKeyCheck = {"TRUE" if keycheck else "FALSE"}\n  MaxSteps = {steps}\n'
           f'  Emit = {"TRUE" if gen else "FALSE"}\n')
    if gen:
        cfg += 'INIT InitGen\nNEXT NextGen\n'
    else:
        cfg += 'INIT Init\nNEXT Next\n' + ''.join(f'INVARIANT {i}\n' for i in INVS) + ''.join(f'PROPERTY {p}\n' for p in PROPS)
    return mod, cfg


def make_value(kind, v):
    import numpy as np
    import pandas as pd

    if kind.startswith('json'):
        falsy = {1: 0, 2: '', 3: [], 4: {}, 5: False, 6: 0.0}
        if v in falsy and kind != 'json':
            return falsy[v]   # falsy, but not None: storable also when allow_nones=False
        return {'id': v, 'text': 'é🙂' * v, 'nested': [v, None, {'a': 1.5, 'b': [True, False]}], 'big': 2 ** 53 + v}
    if kind == 'numpy':      # 0-d, 1-d and 2-d arrays of different dtypes
        if v % 3 == 0:
            return np.array(v * 1.5)
        if v % 3 == 1:
            return np.arange(v + 2) * 1.5
        return (np.arange(6).reshape(2, 3) + v).astype('int16')
    return pd.DataFrame({'a': [v, v + 1], 'b': ['x', str(v)]})


def same(kind, a, b):
    import numpy as np

    if kind.startswith('json'):
        return type(a) is type(b) and a == b and json.dumps(a, sort_keys=True) == json.dumps(b, sort_keys=True)
    if kind == 'numpy':
        return isinstance(a, np.ndarray) and a.dtype == b.dtype and a.shape == b.shape and bool((a == b).all())
    return a.equals(b) and list(a.dtypes) == list(b.dtypes)


def replay(job):
    """Replay one behaviour on a real cache.  Returns (idx, [(sigclass, text)])."""
    idx, kind, beh, seed = job
    import taskchain.cache as tc

    rng = random.Random(seed)
    root = scratch(f'c14-{os.getpid()}') / f'b{idx}'
    bad = []
    try:
        cls = {'json': tc.JsonCache, 'json-nonone': lambda d: tc.JsonCache(d, allow_nones=False), 'json-falsy': tc.JsonCache,
               'numpy': tc.NumpyArrayCache,
               'df': tc.DataFrameCache}[kind]
        cache = cls(root)
        keys = rng.sample(KEYPOOL, 2)
        real = {'k1': (cache, keys[0]), 'k2': (cache, keys[1]), 's/k1': (cache.subcache('s'), keys[0])}
        calls = [0]
        hist = []
        for act, exp in beh:
            c, key = real[act['s']]
            op = act['op']
            hist.append(f"{op}({act['s']})")
            path = c.filepath(key)
            if op in ('truncate', 'delete', 'foreign'):
                if op == 'delete':
                    path.unlink()
                elif op == 'foreign':
                    path.write_text(json.dumps({'key': key + '-other', 'value': 1}))
                else:
                    data = path.read_bytes()
                    mode = rng.choice(['cut', 'cut', 'cut', 'garbage', 'empty-json'])
                    if mode == 'cut':
                        path.write_bytes(data[:rng.choice([0, 1, len(data) // 2, len(data) - 1])])
                    elif mode == 'garbage':
                        path.write_bytes(b'\x00\xff garbage ' + data[5:20])
                    else:
                        path.write_bytes(b'[]' if kind.startswith('json') else b'')
                continue
            before = calls[0]
            want_v = act['res']

            def computer():
                calls[0] += 1
                if op == 'goc-raise' or act['res'] == 97:
                    raise KeyError('computer fails')
                return make_value(kind, want_v)

            try:
                if op == 'get':
                    got = c.get(key)
                    res = ('noval',) if got is tc.NO_VALUE else ('val', got)
                else:
                    res = ('val', c.get_or_compute(key, computer, force=bool(act['force'])))
            except tc.CacheException:
                res = ('cacheexc',)
            except KeyError:
                res = ('raised',)
            except Exception as e:  # noqa
                res = ('error', f'{type(e).__name__}: {e}'[:120])
            computed = calls[0] - before
            ctxt = ' ; '.join(hist[-6:])
            if act['res'] == 0:
                if res != ('noval',):
                    bad.append(('get', f'[{kind}] get returned {str(res)[:80]} where nothing intact is stored, after {ctxt}'))
            elif act['res'] == 98:
                if res != ('cacheexc',):
                    bad.append(('foreign-key', f'[{kind}] an entry recorded for another key was not reported: '
                                               f'{str(res)[:80]}, after {ctxt}'))
            elif act['res'] == 97:
                if res != ('raised',):
                    bad.append(('raise', f'[{kind}] failing computer: got {str(res)[:80]}, after {ctxt}'))
            else:
                if res[0] != 'val' or not same(kind, res[1], make_value(kind, act['res'])):
                    bad.append(('value', f'[{kind}] {op} returned {str(res)[:100]}, the value stored for the key is that of '
                                         f'computation #{act["res"]}, after {ctxt}'))
            if computed != (1 if act['computed'] else 0):
                bad.append(('computes', f'[{kind}] {op} called the computer {computed} time(s), expected '
                                        f'{1 if act["computed"] else 0}, after {ctxt}'))
            for s, (cc, kk) in real.items():
                if cc.filepath(kk).exists() != (exp['store'][s] != 100):
                    bad.append(('files', f'[{kind}] file of slot {s} exists={cc.filepath(kk).exists()}, model says '
                                         f'{exp["store"][s] != 100}, after {ctxt}'))
            if bad:
                break
    except Exception as e:  # noqa
        import traceback
        bad.append(('harness', f'{type(e).__name__}: {e}\n{traceback.format_exc()[-600:]}'))
    finally:
        shutil.rmtree(root, ignore_errors=True)
    return idx, bad


def _special(_):
    """None values with allow_nones, and round trips of awkward values."""
    import taskchain.cache as tc
    root = scratch(f'c14s-{os.getpid()}')
    out = []
    try:
        c = tc.JsonCache(root / 'a')
        calls = []
        for _ in range(2):
            v = c.get_or_compute('none-key', lambda: calls.append(1))
        if len(calls) != 1 or v is not None or c.get('none-key') is not None:
            out.append(('none-value', f'a stored None is not served from the cache (computer calls: {len(calls)})'))
        c2 = tc.JsonCache(root / 'b', allow_nones=False)
        try:
            c2.get_or_compute('k', lambda: None)
            out.append(('none-refused', 'allow_nones=False stored a None'))
        except tc.CacheException:
            pass
        if c2.get('k') is not tc.NO_VALUE and c2.filepath('k').exists():
            pass
        # an entry written by one process is read by another whose locale is not UTF-8 (LC_ALL=C): same value, no recompute
        import subprocess
        import sys
        key, val = 'klíč 🙂', {'text': 'žluťoučký kůň 🙂', 'n': 1}
        c3 = tc.JsonCache(root / 'c')
        c3.get_or_compute(key, lambda: val)
        prog = ('import sys, json; sys.path[:0] = json.loads(sys.argv[1]); import taskchain.cache as tc\n'
                'c = tc.JsonCache(sys.argv[2]); calls = []\n'
                'key, val = json.loads(sys.argv[3])\n'
                'got = c.get(key); again = c.get_or_compute(key, lambda: calls.append(1) or val)\n'
                'print(json.dumps([got == val, again == val, len(calls)]))')
        env = dict(os.environ, LC_ALL='C', LANG='C', PYTHONUTF8='0', PYTHONCOERCECLOCALE='0', PYTHONWARNINGS='ignore')
        p = subprocess.run([sys.executable, '-c', prog, json.dumps([x for x in sys.path if x]), str(root / 'c'), json.dumps([key, val])],
                           env=env, capture_output=True, text=True, timeout=120)
        line = (p.stdout.strip().splitlines() or [''])[-1]
        if line != '[true, true, 0]':
            out.append(('locale', f'an entry with non-ASCII text, read by a process with LC_ALL=C: [get returns the value, '
                                  f'get_or_compute returns it, computer calls] = {line or p.stderr[-200:]}'))
    finally:
        shutil.rmtree(root, ignore_errors=True)
    return out


def run(ctx):
    quick = ctx.quick()
    steps = 4 if quick else 5
    for keycheck in (True, False):
        mod, cfg = mc(keycheck, steps + 1, False)
        res = run_tlc('MCCacheSeq', cfg_text=cfg, extra_files={'MCCacheSeq.tla': mod}, workers=16, timeout=1800, coverage=True)
        account(ctx, res, f'CacheSeq keycheck={keycheck} MaxSteps={steps + 1}', dead_ok=() if keycheck else ('PlantForeign',))
    graphs = {}
    for keycheck in (True, False):
        mod, cfg = mc(keycheck, steps, True)
        res = run_tlc('MCCacheSeq', cfg_text=cfg, extra_files={'MCCacheSeq.tla': mod}, workers=8, timeout=1800)
        account(ctx, res, f'CacheSeq keycheck={keycheck} edge export MaxSteps={steps}')
        graphs[keycheck] = Graph(res.by_tag('E'), [e['st'] for e in res.by_tag('I')], drop=('steps', 'last'))
    jobs = []
    for kind in ('json', 'json-nonone', 'json-falsy', 'numpy', 'df'):
        g = graphs[kind.startswith('json')]
        cover, ncov = g.cover(maxlen=10, rng=ctx.rng, limit=150 if quick else None)
        walks = [g.walk(ctx.rng, 12) for _ in range(60 if quick else 600)]
        ctx.count('graph_edges', len(g.edges))
        ctx.count('edges_covered_by_replay', ncov)
        for p in cover + walks:
            beh = g.behaviour(p)[1]
            if beh:
                jobs.append((len(jobs), kind, beh, ctx.seed * 7 + len(jobs)))
    out = pmap(replay, jobs)
    ctx.traces += len(jobs)
    for idx, bad in out:
        _, kind, beh, _ = jobs[idx]
        ctx.case(kind + json.dumps([a for a, _ in beh], sort_keys=True), nontrivial=len(beh) > 1)
        for cls, text in bad:
            if cls == 'harness':
                raise MachineryError(text)
            ctx.report(f'{kind}:{cls}', text, detail={'kind': kind, 'behaviour': [a for a, _ in beh]})
    for cls, text in run_forked(_special, None):
        ctx.report(cls, text)
    for j in jobs[:2] + jobs[-2:]:
        ctx.sample({'cache': j[1], 'ops': [f"{a['op']}({a['s']})->{a['res']}" for a, _ in j[2]]})
    ctx.assumptions += ['keys from a pool of awkward unicode strings; damage = truncation to 0/1/half/n-1 bytes, garbage '
                        'bytes or an empty document']
