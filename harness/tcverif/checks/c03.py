"""C03 - different computations get different storage locations (specs/KeyScheme.tla, KeyPairs.tla)."""
import json
import os
import random
import shutil
from collections import defaultdict

from .. import gen, key_check
from ..core import MachineryError, scratch
from ..procs import pmap, run_forked
from ..tlc import account, run_tlc


def esc_repr(x):
    """the representation the scheme WOULD give if quotes and backslashes inside strings were escaped"""
    if isinstance(x, str):
        return json.dumps(x)
    if isinstance(x, list):
        return '[' + ', '.join(esc_repr(e) for e in x) + ']'
    if isinstance(x, dict):
        return '{' + ', '.join(f'{json.dumps(k)}: {esc_repr(v)}' for k, v in sorted(x.items())) + '}'
    return repr(x)


def has_quote(x):
    if isinstance(x, str):
        return "'" in x or '\\' in x
    if isinstance(x, list):
        return any(has_quote(e) for e in x)
    if isinstance(x, dict):
        return any(has_quote(k) or has_quote(v) for k, v in x.items())
    return False


def _stale_read(pair, history=()):
    """Consequence of a collision on the real code: compute with x1, then a chain configured with x2 returns x1's
    result.  history: values whose keys are computed first in this process (a collision that needs them is history
    dependent: class-level memos...)."""
    x1, x2 = pair
    key_check.module()
    root = scratch(f'stale-{os.getpid()}')
    try:
        base = root / 'data'
        rng = random.Random(0)
        for i, h in enumerate(history):
            try:
                ch, _ = key_check.realise('file', h, 5, 1, root / 'hist', root / f'wh{i}', rng, global_vars={})
                _ = ch['a'].data_path
            except Exception:  # noqa
                pass
        c1, _ = key_check.realise('file', x1, 5, 1, base, root / 'w1', rng, global_vars={})
        v1 = c1['a'].value
        c2, _ = key_check.realise('file', x2, 5, 1, base, root / 'w2', rng, global_vars={})
        same_path = str(c1['a'].data_path) == str(c2['a'].data_path)
        gen.RUNLOG.clear()
        v2 = c2['a'].value
        return {'same_path': same_path, 'stale': v2 == v1 and v2['p'] != {'x': gen._plain(x2)}, 'ran': len(gen.RUNLOG)}
    finally:
        shutil.rmtree(root, ignore_errors=True)


def _yaml_pair(pair):
    x1, x2 = pair
    key_check.module()
    root = scratch(f'yamlpair-{os.getpid()}')
    try:
        base = root / 'data'
        rng = random.Random(0)
        c1, _ = key_check.realise('yaml', x1, 5, 1, base, root / 'w1', rng, global_vars={})
        v1 = c1['a'].value
        c2, _ = key_check.realise('yaml', x2, 5, 1, base, root / 'w2', rng, global_vars={})
        same = str(c1['a'].data_path) == str(c2['a'].data_path)
        v2 = c2['a'].value
        return {'same_path': same, 'stale': same and v2 == v1}
    finally:
        shutil.rmtree(root, ignore_errors=True)


def _swap(x):
    """two mounts of one task feeding one consumer: exchanging which mount carries which computation is another
    computation of the consumer (input WIRINGS that differ)"""
    key_check.module()
    root = scratch(f'swap-{os.getpid()}')
    try:
        return key_check.realise_xns(None, x, root / 'd', root / 'w')
    finally:
        shutil.rmtree(root, ignore_errors=True)


def run(ctx):
    quick = ctx.quick()
    # ---- design level: pairs of values in TLC
    npair = 200 if quick else 700
    text, cfg = key_check.mc_pairs('InjectiveQuoteFree', npair)
    res = run_tlc('MCKeyPairs', cfg_text=cfg, extra_files={'MCKeyPairs.tla': text}, workers=16, timeout=3000, heap='8g')
    account(ctx, res, f'KeyPairs: all pairs of the first {npair} values, InjectiveQuoteFree')
    text, cfg = key_check.mc_pairs('Injective', npair)
    res = run_tlc('MCKeyPairs', cfg_text=cfg, extra_files={'MCKeyPairs.tla': text}, workers=4, timeout=3000,
                  expect_ok=False, heap='8g')
    ctx.extra['tlc_counterexample_for_unescaped_quoting'] = bool(res.invariant_violated)
    ctx.tlc_runs.append({'run': 'KeyPairs: Injective over all values incl. quote characters (counterexample expected: '
                                'known finding)', 'violated': res.invariant_violated})
    # ---- the real code: every enumerated value, grouped by the key it gets
    cases = key_check.enumerate_cases(ctx, 1 if quick else 2)
    key_check.module()
    out = pmap(key_check.observe, [(i, c, ['file'], ctx.seed) for i, c in enumerate(cases)])
    ctx.traces += len(cases)
    by_key = defaultdict(list)
    by_x = defaultdict(dict)
    for idx, bad, info in out:
        for cat, sig, what in bad:
            if cat == 'harness':
                raise MachineryError(what)
        c = cases[idx]
        x = key_check.to_py(c['va'])
        cx = key_check.canon(x) if c['va']['t'] not in ('auto', 'inst', 'rstr') else json.dumps(x, sort_keys=False) + c['va']['t']
        ctx.case(cx + f"|{c['yv']}{c['zv']}")
        if 'keys' not in info:
            continue
        if (c['yv'], c['zv']) == (5, 1):
            by_key[info['keys']['a']].append((cx, x, info['keys']))
        by_x[cx][(c['yv'], c['zv'])] = info['keys']
    ctx.extra['distinct_values'] = len(by_key)
    collisions = 0
    for key, members in by_key.items():
        distinct = {m[0]: m for m in members}
        if len(distinct) > 1:
            collisions += 1
            ms = list(distinct.values())
            x1, x2 = ms[0][1], ms[1][1]
            plain = all(not isinstance(m[1], dict) or 'class' not in m[1] for m in ms)
            # the known class: the collision needs a quote or backslash character inside some string (or mapping key)
            # and disappears as soon as those are escaped
            quote_class = plain and len({esc_repr(m[1]) for m in ms}) == len(ms) and any(has_quote(m[1]) for m in ms)
            conf = run_forked(_stale_read, (x1, x2))
            note = ''
            if not conf['same_path']:
                # not in a fresh process: the keys were observed in a process that had hashed other values before
                hist = [key_check.to_py(c['va']) for c in cases if c['va']['t'] in ('auto', 'inst', 'rstr')]
                conf = run_forked(_stale_read, (x1, x2), hist)
                note = (' - only after the keys of other parameter objects were computed in the same process '
                        '(history dependent)')
                if not conf['same_path']:
                    raise MachineryError(f'collision of {x1!r} and {x2!r} did not reproduce on real chains')
            sig = ('collision:unescaped-quote-or-backslash-in-string' if quote_class
                   else f'collision:{esc_repr(x1)[:60]}|{esc_repr(x2)[:60]}')
            ctx.report(sig, f'distinct parameter values {x1!r} and {x2!r} get the same storage location {key}'
                            + (f'; a chain configured with the second returns the result computed for the first'
                               if conf['stale'] else '') + note, detail={'values': [m[1] for m in ms], 'confirm': conf})
    ctx.extra['collision_groups'] = collisions
    first, second = {}, {}
    for x in (2, 'a', [1], {'a': 1}, None, 1.5):
        k = run_forked(_swap, x)
        ctx.traces += 1
        if k['cmp12'] == k['cmp21']:
            ctx.report('wiring-swap', f'a task reading p1::a and p2::a has one location ({k["cmp12"]}) whether p1 or p2 carries '
                                      f'x={x!r} (the other x=1): two different input wirings share a result')
        # every single input matters: changing the computation behind ONE mount (the first-listed or the last) moves it
        for which, table in (('cmp12', first), ('cmp21', second)):
            if k[which] in table:
                ctx.report('wiring-one-input', f'a task reading p1::a and p2::a has one location ({k[which]}) for x={table[k[which]]!r} '
                                               f'and x={x!r} behind {"p1" if which == "cmp12" else "p2"} (the other mount unchanged)')
            table[k[which]] = x
    # mappings whose keys are not strings (a YAML config): outside the enumerated JSON-like universe, judged by the
    # property alone - values that differ only in the TYPE of a key are different values
    for x1, x2 in (({1: 'x'}, {'1': 'x'}), ({1: 'a', 2: 'b'}, {'1': 'a', '2': 'b'}), ({True: 1}, {'True': 1}), ({1.5: 0}, {'1.5': 0})):
        k = run_forked(_yaml_pair, (x1, x2))
        ctx.traces += 1
        ctx.case(json.dumps(['yaml-keys', repr(x1), repr(x2)]), nontrivial=True)
        if k['same_path']:
            ctx.report('collision:mapping-key-type', f'distinct parameter values {x1!r} and {x2!r} (a YAML mapping with non-string '
                                                     f'keys and its string-keyed twin) get the same storage location'
                                                     + ('; a chain configured with the second returns the result computed for the first'
                                                        if k['stale'] else ''))
    # downstream: a different upstream key must move every downstream key (chain hash), on the real code
    for t in ('b', 'c', 'd', 'e', 'm', 'n'):
        down = defaultdict(set)
        for key, members in by_key.items():
            for m in members:
                down[m[2][t]].add(key)
        for k, ups in down.items():
            if len(ups) > 1:
                ctx.report(f'chainhash:{t}', f'task {t} has one location {k} for different upstream locations {sorted(ups)[:3]}')
    # persisted parameter of b: the four (y, z) variations are four locations of b and c, one of a
    for cx, combos in by_x.items():
        if len(combos) == 4:
            if len({k['b'] for k in combos.values()}) != 4 or len({k['c'] for k in combos.values()}) != 4:
                ctx.report('param-variation', f'variations of persisted parameters y/z of b do not give 4 locations for x={cx}')
            if len({k['a'] for k in combos.values()}) != 1:
                ctx.report('param-variation-up', f'a parameter of b changed the location of its input a (x={cx})')
    for c in cases[:2] + cases[-2:]:
        ctx.sample({'x': key_check.to_py(c['va']), 'repr': c['repr']})
    ctx.assumptions += ['sha256 truncated to 128 bits is collision free',
                        'value universe: atoms incl. quotes, separators (###, $$$), placeholders; lists / string-keyed '
                        'mappings of length <= 2, depth <= 2 (quick: depth 1); parameter objects from a menu']
