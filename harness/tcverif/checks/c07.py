"""C07 - forcing recomputes exactly what was asked."""
from ..store_check import scaled, run_families, validate_recorded

RELEVANT = {'forced', 'runs', 'visible', 'value', 'error'}


def plans(quick):
    if quick:
        return [
            dict(family='chain',
                 checks=[dict(steps=4, slots=2, rcs=['r1', 'r2'], fail=False)],
                 gen=dict(steps=4, slots=1, lists=[['r1'], ['r1', 'r2']], fail=False, restart=False), cover_limit=150,
                 walks=40, sim=dict(num=120, depth=12, rcs=['r1', 'r2', 'r3'])),
            dict(family='diamond',
                 checks=[dict(steps=4, slots=1, rcs=['d1', 'd3'], fail=False, force_sets='all')],
                 gen=dict(steps=3, slots=1, lists=[['d1'], ['d1', 'd2']], fail=False, restart=False, force_sets='all'),
                 cover_limit=100, walks=30, sim=dict(num=80, depth=10, fail=False, force_sets='all')),
            dict(family='kinds', opts={'gens': True},
                 gen=dict(steps=4, slots=1, lists=[['k1']], fail=False, restart=False), cover_limit=120, walks=40,
                 sim=dict(num=80, depth=10, fail=False, lists=[['k1'], ['k2']])),
            dict(family='deep',
                 gen=dict(steps=4, slots=1, lists=[['e1'], ['e1', 'e2']], fail=True, restart=False), cover_limit=120, walks=40,
                 sim=dict(num=80, depth=12)),
            dict(family='names', name_mode=True, gen=dict(steps=5, slots=1, rcs=['model', 'model.large'], lists=[['model'], ['model.large']], fail=False, restart=False), cover_limit=600, walks=100, sim=dict(num=200, depth=10, fail=False, rcs=['model', 'model.large'], lists=[['model'], ['model.large']])),
        ]
    return scaled(plans(True), 3)


def run(ctx):
    ctx.assumptions += ['the iteration order of chain.force(recompute=True) over a Python set is not controlled: runs of '
                        'force steps are compared as multisets']
    ps = plans(ctx.quick())
    for p in ps:
        p['opts'] = dict(p.get('opts') or {}, record=True)
    run_families(ctx, ps, RELEVANT)
    # every replay, as the events Task.data itself produced, against the decision logic of StoreTrace.tla:
    # a forced task must run (never load), an unforced visible one must load (never run)
    validate_recorded(ctx, kinds={'L', 'R', 'DE'}, cap=2500 if ctx.quick() else None)
