"""C19 - test helpers compute what the real chain computes (specs/TestHelpers.tla)."""
import json
import os
import random
import shutil
import sys
from pathlib import Path

from .. import gen
from ..core import MachineryError, scratch
from ..procs import pmap
from ..tlc import account, run_tlc

MODULE = 'vgen.helpers'
SLUG = {'a': 'a', 'b': 'g:b', 'c': 'c', 'd': 'd', 'e': 'e'}


def module():
    if MODULE in sys.modules:
        return sys.modules[MODULE]
    specs = [
        dict(slug='a', cls_name='HaTask', params=[dict(name='x')], run_params=['x'], kind='json'),
        dict(slug='g:b', cls_name='HbTask', params=[dict(name='y', default=5, name_in_config='y_in_cfg')], run_params=['y'], kind='json',
             inputs=[dict(ref='a', how='class')], pulls=['a']),
        dict(slug='c', cls_name='HcTask', kind='json', inputs=[dict(ref='a', how='name'), dict(ref='g:b', how='class')],
             registry_pulls=['a', 'b']),
        dict(slug='d', cls_name='HdTask', kind='json', inputs=[dict(ref='a', how='param', default=None)]),
        # an optional input (InputTaskParameter inside Meta.input_tasks) declared in front of a plain required one
        dict(slug='e', cls_name='HeTask', kind='json', inputs=[dict(ref='a', how='param_in_list', default=None), dict(ref='g:b', how='class')],
             pulls=['a', 'b'], input_kinds={}),
    ]
    mod = gen.make_module(specs, MODULE)
    return mod


MOCKVAL = {'a': {'mocked': 'a', 'n': [1, 2]}, 'b': 0, 'c': None, 'd': [None], 'e': 'e-mock'}   # falsy and None mock values included


def expected(v, given):
    if 'mock' in v:
        return MOCKVAL[v['mock']]
    if 'absent' in v:
        return None       # an optional input nobody provides: the task sees its default
    t = v['t']
    p = {}
    if t == 'a':
        p = {'x': 11}
    if t == 'b':
        p = {'y': 7 if 'y' in given else 5}
    ins = {}
    names = {'b': ['a'], 'c': ['a', 'b'], 'd': [], 'e': ['a', 'b']}.get(t, [])
    for name, sub in zip(names, v['i']):
        ins[name] = expected(sub, given)
    return {'t': SLUG[t], 'p': p, 'i': ins}


def one(job):
    idx, case, seed = job
    from taskchain.utils.testing import TestChain, create_test_task

    mod = module()
    rng = random.Random(seed + idx)
    cls = {'a': mod.HaTask, 'b': mod.HbTask, 'c': mod.HcTask, 'd': mod.HdTask, 'e': mod.HeTask}
    root = scratch(f'c19-{os.getpid()}') / f't{idx}'
    bad = []
    real, mocks, given = case['real'], case['mocks'], case['given']
    params = {}
    if 'x' in given:
        params['x'] = 11
    if 'y' in given:
        params['y_in_cfg'] = 7
    label = f'TestChain(tasks={sorted(real)}, mock_tasks={sorted(mocks)}, parameters={params})'
    try:
        # mocks addressed by class or by full slug name, at random
        mock_arg = {}
        for m in mocks:
            mock_arg[cls[m] if rng.random() < 0.5 else SLUG[m]] = MOCKVAL[m]
        gen.RUNLOG.clear()
        try:
            tc = TestChain([cls[t] for t in sorted(real)], mock_tasks=mock_arg, parameters=params, base_dir=root)
            err = None
        except Exception as e:  # noqa
            tc, err = None, e
        if 'error' in case['out']:
            if tc is not None:
                # construction succeeded: the problem must then not be silently ignored at request time either
                bad.append((f"no-error:{case['out']['error']}", f'{label}: a missing {case["out"]["error"]} was not reported when '
                                                                 f'the helper was constructed'))
            return idx, bad
        if tc is None:
            bad.append(('construct', f'{label}: construction failed: {type(err).__name__}: {err}'))
            return idx, bad
        for t in sorted(real):
            want = expected(case['out']['values'][t], given)
            got = tc[SLUG[t]].value
            if got != want:
                bad.append(('value', f'{label}: {SLUG[t]} yields {got!r}, the real chain yields {want!r}'))
        ran = {e['slug'] for e in gen.RUNLOG}
        for m in mocks:
            if SLUG[m] in ran:
                bad.append(('mock-run', f'{label}: mocked task {SLUG[m]} was run'))
            mt = tc[SLUG[m]]
            if mt.value != MOCKVAL[m] and not (mt.value is MOCKVAL[m]):
                bad.append(('mock-value', f'{label}: mock {SLUG[m]} returns {mt.value!r}, supplied was {MOCKVAL[m]!r}'))
            d = root / SLUG[m].replace(':', '/')
            if d.exists() and any(p.is_file() for p in d.rglob('*')):
                bad.append(('mock-persisted', f'{label}: files were written for mocked task {SLUG[m]}: {list(d.rglob("*"))}'))
        # forcing through the test chain must leave mocks what they are (supplied values, never run)
        if mocks and real:
            gen.RUNLOG.clear()
            m0 = sorted(mocks)[0]
            try:
                tc.force(SLUG[m0], recompute=bool(idx % 2))     # (odd cases: the chain recomputes the forced tasks itself)
                for t in sorted(real):
                    want = expected(case['out']['values'][t], given)
                    got = tc[SLUG[t]].value
                    if got != want:
                        bad.append(('after-force', f'{label}: after chain.force({SLUG[m0]!r}) {SLUG[t]} yields {got!r}, expected {want!r}'))
                if tc[SLUG[m0]].value != MOCKVAL[m0]:
                    bad.append(('after-force', f'{label}: after chain.force the mock {SLUG[m0]} returns {tc[SLUG[m0]].value!r}'))
            except Exception as e:  # noqa
                bad.append(('after-force', f'{label}: chain.force({SLUG[m0]!r}) then reading values failed: {type(e).__name__}: {e}'))
            if any(e['slug'] == SLUG[m] for e in gen.RUNLOG for m in mocks):
                bad.append(('mock-run', f'{label}: a mocked task was run after forcing'))
        # create_test_task for single real tasks whose inputs are all mocked
        if len(real) == 1:
            t = real[0]
            gen.RUNLOG.clear()
            tt = create_test_task(cls[t], input_tasks=dict(mock_arg), parameters=dict(params), base_dir=root / 'single')
            want = expected(case['out']['values'][t], given)
            if tt.value != want:
                bad.append(('create_test_task', f'create_test_task({SLUG[t]}, {sorted(mocks)}, {params}) yields {tt.value!r}, '
                                                f'the real chain yields {want!r}'))
    except Exception as e:  # noqa
        import traceback
        tb = traceback.format_exc()
        last = [l for l in tb.splitlines() if l.strip().startswith('File ')][-1]
        if '/taskchain/' in last:     # the library raised on a legitimate use of the helper: that is a finding
            bad.append(('helper-raises', f'{label}: {type(e).__name__}: {e}'))
        else:
            bad.append(('harness', f'{type(e).__name__}: {e}\n{tb[-700:]}'))
    finally:
        shutil.rmtree(root, ignore_errors=True)
    return idx, bad


def param_values(_):
    """The same task, the same parameter VALUES - objects whose identity matters, objects that are told their chain,
    explicit None over a default, mutable containers - in a real chain and in both helpers."""
    import itertools
    import types

    from taskchain import Config, Task
    from taskchain.chain import ChainObject
    from taskchain.parameter import Parameter, ParameterObject
    from taskchain.utils.testing import TestChain, create_test_task

    mod = types.ModuleType('vgen_c19p')
    sys.modules['vgen_c19p'] = mod

    class Sent(ParameterObject):
        def repr(self):
            return 'Sent()'

    class Aware(ParameterObject, ChainObject):
        def __init__(self):
            self.chain_seen = False

        def init_chain(self, chain):
            self.chain_seen = sorted(chain.tasks)       # what the object finds in the chain it is given

        def repr(self):
            return 'Aware()'

    SENT = Sent()
    for c in (Sent, Aware):
        c.__module__ = 'vgen_c19p'
        setattr(mod, c.__name__, c)

    class PvTask(Task):
        class Meta:
            name = 'pv'
            parameters = [Parameter('s', default=None), Parameter('o', default=None), Parameter('n', default=3),
                          Parameter('lst', default=None)]

        def run(self, s, o, n, lst) -> dict:
            return {'s_is_the_sentinel': s is SENT, 's_type': type(s).__name__, 'o_was_given_the_chain': getattr(o, 'chain_seen', None),
                    'n': n, 'lst': lst}
    PvTask.__module__ = 'vgen_c19p'
    mod.PvTask = PvTask
    menus = {'s': ['absent', SENT], 'o': ['absent', 'aware'], 'n': ['absent', None, 0], 'lst': ['absent', [1, [2, None]], []]}
    bad = []
    n_cases = 0
    root = scratch(f'c19pv-{os.getpid()}')
    try:
        for combo in itertools.product(*menus.values()):
            def params():
                out = {}
                for k, v in zip(menus, combo):
                    if isinstance(v, str) and v == 'absent':
                        continue
                    out[k] = Aware() if isinstance(v, str) and v == 'aware' else (json.loads(json.dumps(v)) if isinstance(v, list) else v)
                return out
            n_cases += 1
            label = f'parameters { {k: v for k, v in zip(menus, combo) if not (isinstance(v, str) and v == "absent")} }'
            try:
                real = Config(root / f'r{n_cases}', name='real', data={'tasks': [PvTask], **params()}).chain()['pv'].value
            except Exception as e:  # noqa
                bad.append(('harness', f'real chain failed for {label}: {type(e).__name__}: {e}'))
                continue
            for how, build in (('create_test_task', lambda: create_test_task(PvTask, parameters=params(), base_dir=root / f'c{n_cases}')),
                               ('TestChain', lambda: TestChain([PvTask], parameters=params(), base_dir=root / f't{n_cases}')['pv'])):
                try:
                    got = build().value
                except Exception as e:  # noqa
                    bad.append((f'params:{how}', f'{how} with {label} raised {type(e).__name__}: {e}; the real chain yields {real!r}'))
                    continue
                if got != real:
                    bad.append((f'params:{how}', f'{how} with {label} yields {got!r}, the real chain yields {real!r}'))
    finally:
        shutil.rmtree(root, ignore_errors=True)
    return n_cases, bad


def lifetime(_):
    """no base_dir given: results live in a temporary directory that must outlive the chain object while tasks do"""
    import gc

    from taskchain import Task
    from taskchain.data import DirData
    from taskchain.utils.testing import TestChain

    class ExportTask(Task):
        class Meta:
            name = 'export'

        def run(self) -> DirData:
            d = self.get_data_object()
            for i in range(3):
                (d.dir / f'{i}.txt').write_text(str(i))
            return d

    class TotalTask(Task):
        class Meta:
            name = 'total'
            input_tasks = [ExportTask]

        def run(self, export) -> int:
            return sum(int(p.read_text()) for p in sorted(export.iterdir()))

    bad = []
    tc = TestChain([ExportTask, TotalTask])
    exp, tot = tc['export'], tc['total']
    path = exp.value
    del tc
    gc.collect()
    try:
        files = sorted(p.name for p in path.iterdir())
        if files != ['0.txt', '1.txt', '2.txt'] or tot.value != 3:
            bad.append(('lifetime', f'with the default temporary directory, after the TestChain object was released the '
                                    f'exported directory holds {files} and the dependent task yields {tot.value} (real chain: 3)'))
    except Exception as e:  # noqa
        bad.append(('lifetime', f'with the default temporary directory, after the TestChain object was released: '
                                f'{type(e).__name__}: {e}'))
    return bad


def run(ctx):
    cfg = 'CONSTANTS\n  Emit = TRUE\nINIT Init\nNEXT Next\nINVARIANT LeavesOK\nINVARIANT EmitCase\n'
    res = run_tlc('TestHelpers', cfg_text=cfg, workers=4, timeout=600)
    account(ctx, res, 'TestHelpers: every choice of real / mocked tasks and supplied parameters')
    cases = res.by_tag('T')
    ctx.exhaustive = True
    module()
    out = pmap(one, [(i, c, ctx.seed) for i, c in enumerate(cases)])
    ctx.traces += len(cases)
    for idx, bad in out:
        c = cases[idx]
        ctx.case(json.dumps([c['real'], c['mocks'], c['given']]), nontrivial=bool(c['mocks']) or len(c['real']) > 1)
        for cls, text in bad:
            if cls == 'harness':
                raise MachineryError(text)
            ctx.report(cls + ':' + json.dumps([sorted(c['real']), sorted(c['mocks']), sorted(c['given'])]), text, detail=c)
    from ..procs import run_forked
    for cls, text in run_forked(lifetime, None):
        ctx.report(cls, text)
    ncase, bad = run_forked(param_values, None)
    ctx.traces += ncase
    ctx.extra['parameter_value_cases_against_a_real_chain'] = ncase
    for cls, text in bad:
        if cls == 'harness':
            raise MachineryError(text)
        ctx.report(cls, text)
    for c in cases[:2] + cases[-2:]:
        ctx.sample(c)
    ctx.assumptions += ['mocks are addressed by class or by full slug name (the two documented forms)']
