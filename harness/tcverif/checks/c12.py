"""C12 - the storage scheme is stable, so earlier results stay addressable (specs/KeyScheme.tla is the frozen
reference of the 1.4.0 scheme)."""
import json
import os
import shutil
from pathlib import Path

from .. import gen, key_check
from ..core import VERIF, scratch
from ..procs import pmap, run_forked


def _planted(job):
    """Store written from the SPEC, read by the CODE: results planted at the scheme's locations must be found,
    loaded and nothing run."""
    idx, case = job
    key_check.module()
    root = scratch(f'plant-{os.getpid()}') / f'p{idx}'
    bad = []
    try:
        x = key_check.to_py(case['va'])
        base = root / 'data'
        want = {t: key_check.key_of(case['keys'][t]) for t in case['keys']}
        ref_a = {'t': 'a', 'p': {'x': gen._plain(x)}, 'i': {}}
        pa = base / Path(*case['dirs']['a']) / (want['a'] + '.json')
        pa.parent.mkdir(parents=True, exist_ok=True)
        pa.write_text(json.dumps(ref_a))
        pd_ = base / Path(*case['dirs']['d']) / want['d']
        (pd_ / 'sub').mkdir(parents=True)
        (pd_ / 'tree.json').write_text(json.dumps({'planted': True}))
        (pd_ / 'sub' / 'more.txt').write_text('x' * 10)
        import random

        chain, pre = key_check.realise('file', x, case['yv'], case['zv'], base, root / 'w', random.Random(idx))
        gen.RUNLOG.clear()
        for t in ('a', 'd'):
            task = chain[key_check.TASKNAME[t]]
            if not task.has_data:
                bad.append(('orphan', f'orphan:{t}', f'a result planted at the 1.4.0 location of {t} '
                                                     f'({Path(*case["dirs"][t])}/{want[t]}) is not found (x={x!r})'))
        if not bad:
            va = chain['a'].value
            vd = chain['d'].value
            if va != ref_a or json.loads((Path(vd) / 'tree.json').read_text()) != {'planted': True}:
                bad.append(('orphan', 'orphan:value', f'planted results were not the values loaded (x={x!r})'))
            if gen.RUNLOG:
                bad.append(('orphan', 'orphan:run', f'run executed although results were planted: '
                                                    f'{[e["slug"] for e in gen.RUNLOG]} (x={x!r})'))
    except Exception as e:  # noqa
        import traceback
        bad.append(('harness', 'harness', f'{type(e).__name__}: {e}\n{traceback.format_exc()[-700:]}'))
    finally:
        shutil.rmtree(root, ignore_errors=True)
    return idx, bad


def _name_mode(_):
    """Non-parameter mode: the key is the config name."""
    key_check.module()
    from taskchain import Config
    root = scratch(f'nm-{os.getpid()}')
    mod = key_check.module()
    out = []
    try:
        for cname in ('my_cfg', 'model.v2', 'a.b.c', 'name with space'):
            cfg = Config(root / 'data', name=cname, data={'tasks': [mod.KaTask, mod.KbTask, mod.KcTask, mod.KdTask], 'x': 1})
            ch = cfg.chain(parameter_mode=False)
            for name, rel in (('a', f'a/{cname}.json'), ('g:b', f'g/b/{cname}.npy'), ('h:g:c', f'h/g/c/{cname}.pd'),
                              ('d', f'd/{cname}')):
                got = str(Path(ch[name].data_path).relative_to(root / 'data'))
                d = ch[name]._data_without_value
                sides = [Path(d.run_info_path).name, Path(d.log_path).name]
                if got != rel:
                    out.append(('layout', f'namemode:{name}:{cname}', f'name mode, config {cname!r}: {name} stored at {got}, '
                                                                      f'the scheme gives {rel}'))
    finally:
        shutil.rmtree(root, ignore_errors=True)
    return out


def run(ctx):
    from ..core import MachineryError
    cases = key_check.enumerate_cases(ctx, 1 if ctx.quick() else 2)
    key_check.module()
    out = pmap(key_check.observe, [(i, c, ['dict', 'ns', 'xns'], ctx.seed) for i, c in enumerate(cases)])
    ctx.traces += len(cases)
    for idx, bad, info in out:
        ctx.case(cases[idx]['repr'] + f"|{cases[idx]['yv']}{cases[idx]['zv']}", nontrivial=cases[idx]['va']['t'] != 'lit')
        for cat, sig, what in bad:
            if cat == 'harness':
                raise MachineryError(what)
            if cat == 'rewrite' and not sig.startswith(('rewrite:ns', 'rewrite:xns:')):
                ctx.note(f'rewrite divergence (belongs to C02): {what[:160]}')
                continue
            ctx.report(sig, what, detail=cases[idx])
    step = max(1, len(cases) // (300 if ctx.quick() else 3000))
    planted = pmap(_planted, [(i, c) for i, c in enumerate(cases) if i % step == 0])
    ctx.traces += len(planted)
    ctx.extra['planted_stores_read_back'] = len(planted)
    for idx, bad in planted:
        for cat, sig, what in bad:
            if cat == 'harness':
                raise MachineryError(what)
            ctx.report(sig, what, detail=cases[idx])
    for cat, sig, what in run_forked(_name_mode, None):
        ctx.report(sig, what)
    # the naming part of the scheme: class -> group:name -> directory (specs/Naming.tla)
    from .. import naming_check
    naming_check.run(ctx)
    # golden vectors: pin the hash function and truncation (computed once from the pinned commit)
    golden = json.loads((VERIF / 'specs' / 'golden_keys.json').read_text())
    byrepr = {(c['repr'], c['yv'], c['zv']): c for c in cases}
    n = 0
    for g in golden:
        c = byrepr.get((g['repr'], g['yv'], g['zv']))
        if c is None:
            continue
        n += 1
        for t, k in g['keys'].items():
            if key_check.key_of(c['keys'][t]) != k:
                raise MachineryError(f'golden vector mismatch inside the frozen reference for {g["repr"]} task {t}')
    ctx.extra['golden_vectors_checked'] = n
    for c in cases[:2] + cases[-2:]:
        ctx.sample({'x': key_check.to_py(c['va']), 'repr': c['repr'], 'key_a': key_check.key_of(c['keys']['a']),
                    'key_c': key_check.key_of(c['keys']['c'])})
    ctx.assumptions += ['H is uninterpreted in TLA+; the binding instantiates it with hashlib.sha256(text)[:32] (trusted)',
                        'KeyScheme.tla is the frozen 1.4.0 reference; golden_keys.json pins hash and truncation']
