"""C16 - `cached` keys identify the call, not how it was written (specs/Cached.tla)."""
import json
import os
import random
import shutil
from collections import defaultdict

from ..core import MachineryError, scratch
from ..graph import Graph
from ..procs import pmap
from ..tlc import account, run_tlc, tla

# signatures: (name, hasdef, default, kwonly); values are abstract in the specification and realised as JSON-distinct
# values that Python's == conflates: 1, 2, 3 -> "1", 4 -> 1.0, 5 -> True; 6 -> a mapping whose key order varies per call
SIGS = [
    [('a', False, 0, False)],
    [('a', False, 0, False), ('b', True, 2, False)],
    [('a', False, 0, False), ('b', True, 2, False), ('c', True, 1, False)],
    [('a', False, 0, False), ('b', False, 0, False), ('v', True, 1, False)],
    [('a', False, 0, False), ('b', True, 2, False), ('k', True, 1, True)],
    [('v', True, 2, False), ('a', True, 1, False)],
]
VALS = [1, 2, 3, 4, 5, 6]
_FLIP = [0]
IGNORED = ['v']
METHODS = [('m1', ''), ('m2', ''), ('m1', '2')]


def pyval(v):
    if v == 6:      # ONE value - a mapping (nested once) - spelled with its keys in alternating insertion order
        _FLIP[0] += 1
        return ({'p': 1, 'q': {'r': 2, 's': 3}} if _FLIP[0] % 2 else {'q': {'s': 3, 'r': 2}, 'p': 1})
    return {3: '1', 4: 1.0, 5: True}.get(v, v)


def mc(part, gen=False, steps=4):
    sigs = '{' + ', '.join('<<' + ', '.join(
        f'[name |-> "{n}", hasdef |-> {"TRUE" if h else "FALSE"}, def |-> {d}, kwonly |-> {"TRUE" if k else "FALSE"}]'
        for n, h, d, k in s) + '>>' for s in SIGS) + '}'
    mod = ('---- MODULE MCCached ----\nEXTENDS Cached\n'
           f'c_Sigs == {sigs}\nc_Vals == {tla(set(VALS))}\nc_Ignored == {tla(set(IGNORED))}\n'
           f'c_Methods == {{{", ".join(tla(list(m)) for m in METHODS)}}}\nc_Bindings == {{1, 2}}\n====\n')
    cfg = ('CONSTANTS\n  Sigs <- c_Sigs\n  Vals <- c_Vals\n  Ignored <- c_Ignored\n  Methods <- c_Methods\n'
           f'  Bindings <- c_Bindings\n  MaxSteps = {steps}\n  Emit = {"TRUE" if part == "A" or gen else "FALSE"}\n  Part = "{part}"\n')
    if part == 'A':
        cfg += 'INIT Init\nNEXT Next\nINVARIANT BindConforms\nINVARIANT KeyIsBinding\nINVARIANT EmitA\n'
    elif gen:
        cfg += 'INIT InitGen\nNEXT NextGen\n'
    else:
        cfg += ('INIT Init\nNEXT Next\nPROPERTY OnlyNeverInvokes\nPROPERTY ForceInvokes\nPROPERTY HitNeverInvokes\n'
                'PROPERTY StoreNeverInvokes\nPROPERTY EntriesIndependent\n')
    return mod, cfg


FALSY_RESULTS = [None, 0, '', [], False]


def make_class(sig, name='m', version=None, cache_object=None, ignore=(), falsy=False):
    """a class with one cached method of the given signature; the method echoes its bound arguments and counts calls"""
    from taskchain.cache import cached

    pos = [p for p in sig if not p['kwonly']]
    kwo = [p for p in sig if p['kwonly']]
    params = ', '.join(p['name'] + (f'={pyval(p["def"])!r}' if p['hasdef'] else '') for p in pos)
    if kwo:
        params += ', *, ' + ', '.join(p['name'] + f'={pyval(p["def"])!r}' for p in kwo)
    names = [p['name'] for p in sig]
    ret = (f'_FALSY[({" + ".join("sum(map(ord, str(" + n + ")))" for n in names)}) % 5]' if falsy
           else f'{{"args": [{", ".join(names)}], "inv": self.n}}')
    src = (f'def {name}(self, {params}):\n    self.n += 1\n    self.calls.append(({", ".join(names)},))\n'
           f'    return {ret}\n')
    ns = {'_FALSY': FALSY_RESULTS}
    exec(src, ns)
    kw = {}
    if version:
        kw['version'] = version
    if ignore:
        kw['ignore_kwargs'] = list(ignore)
    if cache_object is not None:
        kw['cache_object'] = cache_object
    deco = cached(**kw)

    def init(self, cache=None):
        self.cache, self.n, self.calls = cache, 0, []

    return type('C_' + name, (), {'__init__': init, name: deco(ns[name])})


def spell(case):
    sig = case['sig']
    args = [pyval(case['binding'][sig[i]['name']]) for i in range(case['npos'])]
    kwargs = {p['name']: pyval(case['binding'][p['name']]) for p in sig[case['npos']:] if p['name'] not in case['omit']}
    return args, kwargs


def part_a_group(job):
    """All spellings of all bindings of one signature on one object: one entry and one invocation per key."""
    gi, kind, cases, seed = job
    import taskchain.cache as tc

    rng = random.Random(seed)
    root = scratch(f'c16-{os.getpid()}') / f'a{gi}'
    bad = []
    try:
        sig = cases[0]['sig']
        cache = tc.InMemoryCache() if kind == 'mem' else tc.JsonCache(root)
        falsy = kind.endswith('-falsy')
        kind = kind.replace('-falsy', '')
        cache = tc.InMemoryCache() if kind == 'mem' else tc.JsonCache(root)
        if kind == 'deco':
            cls = make_class(sig, cache_object=cache, ignore=[n for n in IGNORED if any(p['name'] == n for p in sig)], falsy=falsy)
            obj = cls()
        else:
            cls = make_class(sig, ignore=[n for n in IGNORED if any(p['name'] == n for p in sig)], falsy=falsy)
            obj = cls(cache)
        order = list(cases)
        rng.shuffle(order)
        seen = {}
        for c in order:
            args, kwargs = spell(c)
            kws = list(kwargs.items())
            rng.shuffle(kws)
            key = json.dumps(c['key'], sort_keys=True)
            before = obj.n
            try:
                r = obj.m(*args, **dict(kws))
            except Exception as e:  # noqa
                bad.append(('call', f'[{kind}] m(*{args}, **{dict(kws)}) raised {type(e).__name__}: {e}'))
                break
            want_args = [pyval(c['binding'][p['name']]) for p in sig]
            if key in seen:
                if obj.n != before:
                    bad.append(('reinvoked', f'[{kind}] signature {[p["name"] for p in sig]}: call m(*{args}, **{dict(kws)}) '
                                             f'binds {c["binding"]} like an earlier call but executed the method again'))
                elif r != seen[key]:
                    bad.append(('entry', f'[{kind}] call m(*{args}, **{dict(kws)}) returned {r}, the entry of its binding '
                                         f'holds {seen[key]}'))
            else:
                if obj.n != before + 1:
                    bad.append(('shared', f'[{kind}] signature {[p["name"] for p in sig]}: call m(*{args}, **{dict(kws)}) '
                                          f'with a new binding {c["binding"]} did not execute the method (returned {r})'))
                else:
                    got_args = [x for x in obj.calls[-1]]
                    if falsy:
                        want_args = got_args  # (the echo is not returned by the falsy variant)
                    ign = [i for i, p in enumerate(sig) if p['name'] in IGNORED]
                    if [a for i, a in enumerate(got_args)] != want_args:
                        bad.append(('args', f'[{kind}] method received {got_args} for binding {want_args}'))
                seen[key] = r
            if bad:
                break
        if not bad and kind == 'mem':
            n_ent = len(cache.subcache('m'))
            if n_ent != len(seen):
                bad.append(('entries', f'[{kind}] {n_ent} cache entries for {len(seen)} distinct bindings'))
    except Exception as e:  # noqa
        import traceback
        bad.append(('harness', f'{type(e).__name__}: {e}\n{traceback.format_exc()[-600:]}'))
    finally:
        shutil.rmtree(root, ignore_errors=True)
    return gi, bad


def part_b(job):
    idx, kind, beh, seed = job
    import taskchain.cache as tc

    rng = random.Random(seed)
    root = scratch(f'c16-{os.getpid()}') / f'b{idx}'
    bad = []
    try:
        cache = tc.InMemoryCache() if kind == 'mem' else tc.JsonCache(root)
        sig = [dict(name='a', hasdef=False, kwonly=False, **{'def': 0}), dict(name='b', hasdef=True, kwonly=False, **{'def': 2})]
        # m1 and m2 live in ONE class and are wrapped by ONE configured decorator object; their defaults differ
        from taskchain.cache import cached
        deco = cached()
        ns = {}
        exec("def m1(self, a, b=2):\n    self.n += 1\n    return {'args': [a, b], 'inv': self.n}\n"
             "def m2(self, a, b=7):\n    self.n += 1\n    return {'args': [a, b], 'inv': self.n, 'm': 2}\n", ns)

        def init(self, cache=None):
            self.cache, self.n, self.calls = cache, 0, []
        Pair = type('C_pair', (), {'__init__': init, 'm1': deco(ns['m1']), 'm2': deco(ns['m2'])})
        B1 = make_class(sig, 'm1', version='2')
        pair = Pair(cache)
        objs = {('m1', ''): pair, ('m2', ''): pair, ('m1', '2'): B1(cache)}
        dflt = {'m1': 2, 'm2': 7}
        val = {}  # model value id -> real value
        hist = []
        for act, exp in beh:
            m = tuple(act['m'])
            obj = objs[m]
            fn = getattr(obj, m[0])
            d = dflt[m[0]]
            spelling = rng.choice([((act['b'],), {}), ((), {'a': act['b']}), ((act['b'], d), {}), ((act['b'],), {'b': d}),
                                   ((), {'b': d, 'a': act['b']})])
            kw = dict(spelling[1])
            ctrl = act['ctrl']
            if ctrl in ('force', 'forcestore'):
                kw['force_cache'] = True
            if ctrl == 'only':
                kw['only_cache'] = True
            if ctrl in ('store', 'forcestore'):
                kw['store_cache_value'] = {'supplied': act['res']}
            before = obj.n
            hist.append(f"{m[0]}{'.' + m[1] if m[1] else ''}(a={act['b']}, {ctrl})")
            r = fn(*spelling[0], **kw)
            invoked = obj.n - before
            if invoked != (1 if act['invoked'] else 0):
                bad.append(('invocations', f'[{kind}] {hist[-1]} executed the method {invoked} time(s), expected '
                                           f'{1 if act["invoked"] else 0}; history {" ; ".join(hist[-5:])}'))
                break
            if act['res'] == 0:
                ok = r is tc.NO_VALUE
            elif act['invoked']:
                val[act['res']] = r
                ok = r.get('args') == [act['b'], d]
            elif act['res'] >= 50 and act['res'] not in val:
                val[act['res']] = r
                ok = r == {'supplied': act['res']}
            else:
                ok = r == val.get(act['res'])
            if not ok:
                bad.append(('value', f'[{kind}] {hist[-1]} returned {str(r)[:80]}, expected the value of entry #{act["res"]} '
                                     f'({str(val.get(act["res"]))[:60]}); history {" ; ".join(hist[-5:])}'))
                break
    except Exception as e:  # noqa
        import traceback
        bad.append(('harness', f'{type(e).__name__}: {e}\n{traceback.format_exc()[-600:]}'))
    finally:
        shutil.rmtree(root, ignore_errors=True)
    return idx, bad


def run(ctx):
    quick = ctx.quick()
    mod, cfg = mc('A')
    res = run_tlc('MCCached', cfg_text=cfg, extra_files={'MCCached.tla': mod}, workers=8, timeout=1200)
    account(ctx, res, 'Cached part A: every spelling of every binding of 6 signatures: BindConforms, KeyIsBinding')
    cases = res.by_tag('A')
    groups = defaultdict(list)
    for c in cases:
        groups[json.dumps([p['name'] for p in c['sig']] + [p['kwonly'] for p in c['sig']])].append(c)
    jobs = []
    for kind in ('mem', 'json', 'deco', 'mem-falsy', 'json-falsy'):
        for g in groups.values():
            jobs.append((len(jobs), kind, g, ctx.seed + len(jobs)))
    out = pmap(part_a_group, jobs)
    ctx.traces += sum(len(j[2]) for j in jobs)
    for gi, bad in out:
        for cls, text in bad:
            if cls == 'harness':
                raise MachineryError(text)
            ctx.report(f'A:{jobs[gi][1]}:{cls}', text)
    for c in cases:
        ctx.case(json.dumps([c['sig'], c['binding'], c['npos'], c['omit']], sort_keys=True), nontrivial=len(c['sig']) > 1)
    # ---- part B
    mod, cfg = mc('B', steps=5 if quick else 6)
    res = run_tlc('MCCached', cfg_text=cfg, extra_files={'MCCached.tla': mod}, workers=16, timeout=1800)
    account(ctx, res, 'Cached part B: call sequences with control keywords over 3 methods/versions x 2 bindings')
    mod, cfg = mc('B', gen=True, steps=3 if quick else 4)
    res = run_tlc('MCCached', cfg_text=cfg, extra_files={'MCCached.tla': mod}, workers=8, timeout=1800)
    account(ctx, res, 'Cached part B edge export')
    g = Graph(res.by_tag('E'), [e['st'] for e in res.by_tag('I')] or [{'ninv': 0, 'steps': 0}], drop=('steps',))
    # initial key must match the 'from' of the first edges
    g.inits = [(e[0], None) for e in g.edges if json.loads(e[0]).get('ninv') == 0 and not json.loads(e[0]).get('ent')][:1]
    cover, ncov = g.cover(maxlen=8, rng=ctx.rng, limit=200 if quick else None)
    walks = [g.walk(ctx.rng, 10) for _ in range(100 if quick else 1000)]
    jobs = []
    for kind in ('mem', 'json'):
        for p in cover + walks:
            beh = g.behaviour(p)[1]
            if beh:
                jobs.append((len(jobs), kind, beh, ctx.seed * 3 + len(jobs)))
    out = pmap(part_b, jobs)
    ctx.traces += len(jobs)
    ctx.count('graph_edges', len(g.edges))
    ctx.count('edges_covered_by_replay', ncov)
    for idx, bad in out:
        ctx.case('B' + json.dumps([a for a, _ in jobs[idx][2]], sort_keys=True))
        for cls, text in bad:
            if cls == 'harness':
                raise MachineryError(text)
            ctx.report(f'B:{jobs[idx][1]}:{cls}', text, detail=[a for a, _ in jobs[idx][2]])
    for c in cases[:2] + cases[-2:]:
        a, k = spell(c)
        ctx.sample({'signature': [p['name'] for p in c['sig']], 'call': f'm(*{a}, **{k})', 'key': c['key']})
    ctx.assumptions += ['signatures without *args/**kwargs (the decorator does not support them)']
