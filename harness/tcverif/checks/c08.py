"""C08 - the dependency graph is exactly the declared one, and acyclic (specs/Resolve.tla)."""
from .. import resolve_check


def run(ctx):
    ctx.assumptions += ['forests are drawn from the menus of resolve_check.menus(); aliases of one shared task object '
                        'are compared at object level (DESIGN.md section 8)',
                        '"fails with an error" = any exception and no chain (RecursionError on cycles counts)']
    resolve_check.run(ctx, resolve_check.C08_CATS)
