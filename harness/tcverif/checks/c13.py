"""C13 - a MultiChain is its chains, sharing identical tasks."""
from ..store_check import run_families

RELEVANT = {'share', 'held', 'construct', 'value', 'runs', 'forced', 'visible', 'error'}


def plans(quick):
    opts = {'always_multi': True}
    if quick:
        return [
            dict(family='chain', opts=opts,
                 checks=[dict(steps=4, slots=1, lists=[['r1', 'r2'], ['r1', 'r3'], ['r1', 'r4']])],
                 gen=dict(steps=4, slots=1, lists=[['r1', 'r2'], ['r1', 'r4']], fail=False, restart=False),
                 cover_limit=200, walks=50,
                 sim=dict(num=150, depth=12, slots=1, lists=[['r1', 'r2'], ['r1', 'r3'], ['r1', 'r4'], ['r2']])),
            dict(family='mounts', opts=opts,
                 checks=[dict(steps=4, slots=1, lists=[['u1', 'm12'], ['m12']])],
                 gen=dict(steps=3, slots=1, lists=[['u1', 'm12'], ['c11']], fail=False, restart=False),
                 cover_limit=100, walks=30, sim=dict(num=100, depth=10, slots=1)),
        ]
    return [
        dict(family=f, opts=opts, checks=[dict(steps=5, slots=2)],
             gen=dict(steps=5, slots=1, lists=[l for l in ls]), walks=300, walk_len=14,
             sim=dict(num=2000, depth=16, slots=2))
        for f, ls in (('chain', [['r1', 'r2'], ['r1', 'r3'], ['r1', 'r4']]),
                      ('mounts', [['u1', 'm12'], ['c11'], ['c21']]),
                      ('diamond', [['d1', 'd2'], ['d2', 'd3']]))
    ]


def run(ctx):
    ctx.assumptions += ['"held in memory" is read from the task object (task._data); there is no public accessor']
    run_families(ctx, plans(ctx.quick()), RELEVANT)
