"""C13 - a MultiChain is its chains, sharing identical tasks."""
from ..store_check import scaled, run_families

RELEVANT = {'share', 'held', 'construct', 'value', 'runs', 'forced', 'visible', 'error'}


def plans(quick):
    opts = {'always_multi': True}
    if quick:
        return [
            dict(family='chain', opts=opts,
                 checks=[dict(steps=4, slots=1, lists=[['r1', 'r2'], ['r1', 'r3'], ['r1', 'r4']])],
                 gen=dict(steps=4, slots=1, lists=[['r1', 'r2'], ['r1', 'r4']], fail=False, restart=False),
                 cover_limit=200, walks=50,
                 sim=dict(num=150, depth=12, slots=1, lists=[['r1', 'r2'], ['r1', 'r3'], ['r1', 'r4'], ['r2']])),
            dict(family='mounts', opts=opts,
                 checks=[dict(steps=4, slots=1, lists=[['u1', 'm12'], ['m12']])],
                 gen=dict(steps=3, slots=1, lists=[['u1', 'm12'], ['c11'], ['ml', 'mr']], fail=False, restart=False),
                 cover_limit=100, walks=30, sim=dict(num=100, depth=10, slots=1)),
            dict(family='deep', opts=opts,
                 checks=[dict(steps=4, slots=1, lists=[['e1', 'e2']])],
                 gen=dict(steps=4, slots=1, lists=[['e1', 'e2']], fail=False, restart=False), cover_limit=150, walks=40,
                 sim=dict(num=80, depth=10, slots=1, lists=[['e1', 'e2']])),
            # v3: the pipeline mounted below has the same values as the root - lo::a and a are ONE computation in one
            # chain; v1 + v2 share the inner pipeline's results across chains
            dict(family='levels', opts=opts,
                 checks=[dict(steps=4, slots=1, lists=[['v1', 'v2'], ['v3']])],
                 gen=dict(steps=4, slots=1, lists=[['v1', 'v2'], ['v3'], ['v2', 'v3'], ['v2', 'v4']], fail=False, restart=False),
                 cover_limit=150, walks=40, sim=dict(num=80, depth=10, slots=1)),
            # name mode over two PARTS of one multi-config file
            dict(family='names', name_mode=True, opts=opts,
                 gen=dict(steps=4, slots=1, rcs=['exp#small', 'exp#large'], lists=[['exp#small', 'exp#large']], fail=False, restart=False),
                 cover_limit=100, walks=30),
            dict(family='names', name_mode=True, opts=opts, gen=dict(steps=4, slots=1, rcs=['top1', 'top2'], lists=[['top1', 'top2'], ['top1']], fail=False, restart=False), cover_limit=120, walks=40, sim=dict(num=80, depth=10, slots=1, rcs=['top1', 'top2', 'model'], lists=[['top1', 'top2'], ['top1'], ['model']])),
        ]
    return scaled(plans(True), 3)


def _force_missing(_):
    """forcing a name through a MultiChain whose member cannot resolve it: the call must fail loudly, never skip a chain"""
    import shutil
    from ..core import scratch
    from ..families import FAMILIES, build_config, module_for
    from taskchain import MultiChain

    fam = FAMILIES['mounts']
    module_for(fam)
    root = scratch('c13-missing')
    bad = []
    try:
        cfgs = [build_config(fam, rc, root / 'data', root / f'w{i}') for i, rc in enumerate(['u1', 'm12'])]
        try:
            mc = MultiChain(cfgs)
        except Exception as e:  # noqa
            return [('construct', f'MultiChain([u1, m12]) - the same pipeline unmounted and mounted twice - failed to build: '
                                  f'{type(e).__name__}: {e}')]
        before = {name: t.is_forced for c in mc.chains.values() for name, t in c.tasks.items()}
        try:
            mc.force(['a'])     # 'a' exists in u1, is ambiguous (n1::a / n2::a) in m12
            raised = False
        except Exception:  # noqa
            raised = True
        if not raised:
            left = [n for c in mc.chains.values() for n, t in c.tasks.items() if n.endswith('::a') and not t.is_forced]
            if left:
                bad.append(('multiforce-skips-chain', f"MultiChain.force(['a']) returned normally although one member chain "
                                                      f'cannot resolve the name; its tasks {left} were left unforced'))
    finally:
        shutil.rmtree(root, ignore_errors=True)
    return bad


def run(ctx):
    from ..procs import run_forked
    for cls, text in run_forked(_force_missing, None):
        ctx.report(cls, text)
    ctx.assumptions += ['"held in memory" is read from the task object (task._data); there is no public accessor']
    run_families(ctx, plans(ctx.quick()), RELEVANT)
