"""Deterministic scheduling of real threads through the behaviours of specs/Cache.tla (C15).

Every point at which another caller can observe or change the shared state is a yield point: the thread announces
what it is about to do and waits for the scheduler.  The scheduler holds a TLC behaviour - a sequence of
(caller, label) - and releases exactly one thread per step.  The real FileLock, the real files and the real cache
classes are used; only their entry points are wrapped."""
import builtins
import os
import pathlib
import threading
import time

import taskchain.cache as tcache

KIND = {'acq1': 'acq', 'acq2': 'acq', 'chk': 'chk', 'rel1': 'rel', 'rel2': 'rel', 'relf': 'rel', 'opnr': 'opnr', 'rd': 'rd',
        'comp': 'comp', 'opnw': 'opnw', 'wra': 'wra', 'wrb': 'wrb', 'cls': 'cls'}
SILENT = {'br', 'fin', 'Done'}  # labels without a yield point in the code


class Sched:
    def __init__(self):
        self.cv = threading.Condition()
        self.parked = {}  # caller -> announced kind
        self.go = set()
        self.managed = {}  # thread ident -> caller
        self.holders = {}  # lock path -> caller
        self.free_run = False
        self.blocked = set()   # callers whose last attempt to take the lock failed (retried after a release / unlink)
        self.cache_file = None
        self.drift = []
        self.log = []  # (caller, kind) in execution order

    # called by wrapped code in a managed thread
    def yield_point(self, kind, info=None):
        c = self.managed.get(threading.get_ident())
        if c is None:
            return
        with self.cv:
            self.parked[c] = (kind, info)
            self.cv.notify_all()
            while c not in self.go and not self.free_run:
                self.cv.wait(0.5)
            self.go.discard(c)
            self.parked.pop(c, None)  # (already removed by release(); needed in free-run mode)
            self.log.append((c, kind))

    def wait_parked(self, c, timeout=5.0):
        t0 = time.time()
        with self.cv:
            while c not in self.parked:
                if c in self.finished:
                    return None
                if time.time() - t0 > timeout:
                    return 'timeout'
                self.cv.wait(0.05)
            return self.parked[c][0]

    def release(self, c):
        with self.cv:
            self.parked.pop(c, None)
            self.go.add(c)
            self.cv.notify_all()

    finished = set()


_S = [None]


class SchedLock(tcache.FileLock):
    """The real FileLock; acquire and release are yield points."""

    def acquire(self, *a, **k):
        s = _S[0]
        if s is not None and threading.get_ident() in s.managed:
            import filelock

            c = s.managed[threading.get_ident()]
            while True:
                s.yield_point('acq', self.lock_file)
                try:
                    # the REAL lock decides (same path may be another inode after an unlink): never block inside it
                    r = super().acquire(timeout=0)
                    break
                except filelock.Timeout:
                    s.blocked.add(c)
            s.holders[self.lock_file] = c
            return r
        return super().acquire(*a, **k)

    def release(self, force=False):
        s = _S[0]
        if s is not None and threading.get_ident() in s.managed and self.is_locked:
            s.yield_point('rel', self.lock_file)
            s.holders.pop(self.lock_file, None)
        return super().release(force)


class _Reader:
    def __init__(self, f, s):
        self.f, self.s = f, s

    def read(self, *a):
        self.s.yield_point('rd')
        return self.f.read(*a)

    def __enter__(self):
        return self

    def __exit__(self, *a):
        self.f.close()

    def close(self):
        self.f.close()

    def __getattr__(self, n):
        return getattr(self.f, n)


class _Writer:
    def __init__(self, f, s):
        self.f, self.s = f, s

    def write(self, data):
        h = len(data) // 2
        self.s.yield_point('wra')
        self.f.write(data[:h])
        self.f.flush()
        self.s.yield_point('wrb')
        self.f.write(data[h:])
        self.f.flush()
        return len(data)

    def __enter__(self):
        return self

    def __exit__(self, *a):
        self.close()

    def close(self):
        self.s.yield_point('cls')
        self.f.close()

    def __getattr__(self, n):
        return getattr(self.f, n)


class Patch:
    """Install / remove the wrappers (per execution; the harness process is single-purpose)."""

    def __enter__(self):
        self.orig = (tcache.FileLock, pathlib.Path.exists, pathlib.Path.open)
        self.orig2 = (builtins.open, os.unlink, os.remove)
        o_exists, o_open = self.orig[1], self.orig[2]
        b_open, o_unlink = self.orig2[0], self.orig2[1]
        tcache.FileLock = SchedLock

        def bopen(file, mode='r', *a, **k):
            # numpy / pandas open the cache file with the builtin
            s = _S[0]
            if (s is not None and threading.get_ident() in s.managed and isinstance(file, (str, os.PathLike))
                    and os.fspath(file) == s.cache_file):
                if 'r' in mode and '+' not in mode:
                    s.yield_point('opnr')
                    return _Reader(b_open(file, mode, *a, **k), s)
                s.yield_point('opnw')
                return _Writer(b_open(file, mode, *a, **k), s)
            return b_open(file, mode, *a, **k)

        def unlink(path, *a, **k):
            # removing a file of the cache directory (the entry or its lock file) is visible to the other callers
            s = _S[0]
            if (s is not None and threading.get_ident() in s.managed and isinstance(path, (str, os.PathLike))
                    and os.path.dirname(os.fspath(path)) == os.path.dirname(s.cache_file)):
                s.yield_point('unlink', os.fspath(path))
            return o_unlink(path, *a, **k)

        builtins.open = bopen
        os.unlink = unlink
        os.remove = unlink

        def exists(p, *a, **k):
            s = _S[0]
            if s is not None and threading.get_ident() in s.managed and str(p) == s.cache_file:
                s.yield_point('chk')
            return o_exists(p, *a, **k)

        def open_(p, mode='r', *a, **k):
            s = _S[0]
            if s is not None and threading.get_ident() in s.managed and str(p) == s.cache_file:
                if 'r' in mode and '+' not in mode:
                    s.yield_point('opnr')
                    return _Reader(o_open(p, mode, *a, **k), s)
                s.yield_point('opnw')
                return _Writer(o_open(p, mode, *a, **k), s)
            return o_open(p, mode, *a, **k)

        pathlib.Path.exists = exists
        pathlib.Path.open = open_
        return self

    def __exit__(self, *a):
        tcache.FileLock, pathlib.Path.exists, pathlib.Path.open = self.orig
        builtins.open, os.unlink, os.remove = self.orig2


def value_of(c, kind='json'):
    """the value caller c computes: distinguishable and of a distinct length, so overlaid writes cannot cancel out"""
    if kind == 'numpy':
        import numpy as np
        return np.full(40 * c + 8, float(c))
    if kind == 'df':
        import pandas as pd
        return pd.DataFrame({'by': [c] * (3 * c + 2), 'pad': ['x' * (5 * c + 1)] * (3 * c + 2)})
    return {'by': c, 'pad': 'x' * (7 * c + 3)}


def same_value(kind, a, b):
    if kind == 'numpy':
        import numpy as np
        return isinstance(a, np.ndarray) and a.shape == b.shape and bool((a == b).all())
    if kind == 'df':
        import pandas as pd
        return isinstance(a, pd.DataFrame) and a.equals(b)
    return a == b


FACTORY = {'json': lambda d: tcache.JsonCache(d), 'numpy': lambda d: tcache.NumpyArrayCache(d),
           'df': lambda d: tcache.DataFrameCache(d)}


def _file_complete(path):
    import json

    try:
        doc = json.loads(pathlib.Path(path).read_text())
        return isinstance(doc, dict) and 'value' in doc
    except (OSError, ValueError):
        return False


class ComputeFailed(Exception):
    """raised by the computer of a caller whose computation is to fail"""


def execute(steps, ops, present, directory, cache_factory=None, key='the key', rng=None, kind='json', fails=()):
    """Run one behaviour.  steps: [(caller, label)], ops: {caller: 'get'|'goc'|'force'}; fails: callers whose computer
    raises.  Returns dict(results, file, drift, log, computes (completed), attempted)."""
    s = Sched()
    s.finished = set()
    _S[0] = s
    cache = (cache_factory or FACTORY[kind])(directory)
    s.cache_file = str(cache.filepath(key))
    if present:
        cache.get_or_compute(key, lambda: value_of(0, kind))
    results, computes, attempted = {}, [], []

    def body(c):
        s.managed[threading.get_ident()] = c

        def computer():
            s.yield_point('comp')
            attempted.append(c)
            if c in fails:
                raise ComputeFailed(f'computation of caller {c} fails')
            computes.append(c)
            return value_of(c, kind)

        try:
            if ops[c] == 'get':
                r = cache.get(key)
                results[c] = ('noval',) if r is tcache.NO_VALUE else ('val', r)
            else:
                results[c] = ('val', cache.get_or_compute(key, computer, force=(ops[c] == 'force')))
        except ComputeFailed:
            results[c] = ('failed',)
        except BaseException as e:  # noqa
            results[c] = ('exc', f'{type(e).__name__}: {e}'[:200])
        finally:
            with s.cv:
                s.finished.add(c)
                s.managed.pop(threading.get_ident(), None)
                s.cv.notify_all()

    with Patch():
        threads = {c: threading.Thread(target=body, args=(c,), daemon=True) for c in ops}
        for t in threads.values():
            t.start()
        facts = {c: {'complete_at_start': None, 'disturbed': False, 'computed': False} for c in ops}
        if steps is None:
            # free exploration of the implementation's own yield points: a seeded random schedule
            first = set(ops)
            while len(s.finished) < len(ops):
                with s.cv:
                    ready = [c for c in sorted(s.parked) if c not in s.blocked]
                    everyone_parked = len(s.parked) + len(s.finished) == len(ops)
                if not ready:
                    if all(not t.is_alive() for t in threads.values()):
                        break
                    if everyone_parked and s.blocked:
                        break  # every live caller waits for a lock nobody will release: reported as hung
                    time.sleep(0.001)
                    continue
                c = rng.choice(ready)
                yk = s.parked[c][0]
                if c in first:
                    first.discard(c)
                    facts[c]['complete_at_start'] = _file_complete(s.cache_file)
                if yk in ('opnw', 'wra', 'wrb'):
                    for o in ops:
                        if o != c and o not in first and o not in s.finished and not facts[o]['computed']:
                            facts[o]['disturbed'] = True
                if yk == 'comp':
                    facts[c]['computed'] = True
                if yk in ('rel', 'unlink', 'cls'):
                    s.blocked.clear()
                s.release(c)
                t0 = time.time()
                while time.time() - t0 < 5:
                    with s.cv:
                        if c in s.parked or c in s.finished:
                            break
                        s.cv.wait(0.01)
        for c, label in (steps or []):
            if label in SILENT:
                continue
            got = s.wait_parked(c)
            if got is None:
                s.drift.append(f'caller {c} finished before step {label}')
                continue
            if got == 'timeout':
                s.drift.append(f'caller {c} never reached a yield point for step {label}')
                break
            if got != KIND[label]:
                s.drift.append(f'caller {c} is at {got}, the behaviour expects {label}')
            if got == 'acq':
                # the specification's `await lock = 0`: never release a thread into a lock somebody holds
                path = s.parked.get(c, (None, None))[1]
                if path in s.holders:
                    s.drift.append(f'caller {c} wants the lock held by {s.holders[path]} at step {label}')
                    break
            s.release(c)
            # let the released thread reach its next yield point (or finish) before the next step
            t0 = time.time()
            while time.time() - t0 < 5:
                with s.cv:
                    if c in s.parked or c in s.finished:
                        break
                    s.cv.wait(0.01)
        with s.cv:
            s.free_run = True
            s.cv.notify_all()
        for t in threads.values():
            t.join(10)
    _S[0] = None
    content = None
    final_ok = None
    try:
        if kind == 'json':
            content = pathlib.Path(s.cache_file).read_text()
        elif os.path.exists(s.cache_file):
            content = f'<{os.path.getsize(s.cache_file)} bytes>'
            try:
                v = cache.load_value(pathlib.Path(s.cache_file), key)
                final_ok = any(same_value(kind, v, value_of(w, kind)) for w in set(computes) | ({0} if present else set()))
            except Exception as e:  # noqa
                final_ok = False
                content += f' unreadable: {type(e).__name__}'
    except FileNotFoundError:
        content = None
    # make results comparable across the process boundary
    for c, r in list(results.items()):
        if r[0] == 'val' and kind != 'json':
            who = [w for w in set(computes) | {0} if same_value(kind, r[1], value_of(w, kind))]
            results[c] = ('val', {'by': who[0]} if who else {'by': None, 'repr': str(r[1])[:60]})
    return dict(results=results, file=content, drift=s.drift, log=s.log, computes=computes, attempted=attempted,
                hung=[c for c, t in threads.items() if t.is_alive()], facts=facts, final_ok=final_ok, kind=kind)
