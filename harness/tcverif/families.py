"""Pipeline families: one description that yields (a) the constants of the Store specifications and
(b) the real task classes and config trees.  The *expected resolution* below is the property-level reading
of a config tree (each mount is a namespace; inputs resolve inside their own mount; parameters come from the
mount's values, else the default)."""
import json
from pathlib import Path

from . import gen

P = lambda name, **kw: dict(name=name, **kw)  # noqa: E731


def _t(slug, params=(), inputs=(), pulls=(), kind='json', **kw):
    # an input is (ref, how) or (ref, how, extra) - extra e.g. {'default': None} for an optional InputTaskParameter
    return dict(slug=slug, params=list(params), inputs=[dict(ref=i[0], how=i[1], **(i[2] if len(i) > 2 else {})) for i in inputs],
                pulls=list(pulls), run_params=[p['name'] for p in params if not p.get('norun')], kind=kind, **kw)


FAMILIES = {}


def family(name, tasks, rcs, lists, module=None):
    FAMILIES[name] = dict(name=name, tasks=tasks, rcs=rcs, lists=lists, module=module or f'vgen.{name}')


# ---- chain: a <- b <- c (c declares a but never reads it), in-memory m on a, independent x
family(
    'chain',
    tasks=[
        _t('a', [P('x')]),
        _t('b', [P('y'), P('v', default=0, ignore=True)], [('a', 'class')], ['a']),
        _t('c', [P('z', default=1, dpd=True)], [('a', 'class'), ('b', 'class')], ['b']),
        _t('m', [], [('a', 'class')], ['a'], kind='mem'),
    ],
    rcs={
        'r1': dict(build='dict', mounts=[dict(ns=None, values={'x': 1, 'y': 1, 'v': 0})]),
        'r2': dict(build='file', mounts=[dict(ns=None, values={'x': 2, 'y': 1})]),
        'r3': dict(build='context', mounts=[dict(ns=None, values={'x': 1, 'y': 1, 'z': 2})]),
        'r4': dict(build='file', mounts=[dict(ns=None, values={'x': 1, 'y': 1, 'z': 1, 'v': 7})]),
    },
    lists=[['r1'], ['r2'], ['r3'], ['r4'], ['r1', 'r2'], ['r1', 'r3'], ['r1', 'r4']],
)

# ---- mounts: the pipeline a <- b mounted twice, values per mount from files or from a for_namespaces context
family(
    'mounts',
    tasks=[
        _t('a', [P('x')]),
        _t('g:b', [P('y', default=5)], [('a', 'name')], ['a']),
        _t('pat', [], [('~(.*:)?a', 'name')], [], registry_pulls=['a']),     # a ~pattern input (own namespace only)
    ],
    rcs={
        'u1': dict(build='dict', mounts=[dict(ns=None, values={'x': 1})]),
        # the same pipeline with the same values under two different namespaces: one computation, two names
        'ml': dict(build='mounts-files', mounts=[dict(ns='left', values={'x': 1})]),
        'mr': dict(build='mounts-files', mounts=[dict(ns='right', values={'x': 1})]),
        'm12': dict(build='mounts-files', mounts=[dict(ns='n1', values={'x': 1}), dict(ns='n2', values={'x': 2})]),
        'c21': dict(build='mounts-ctx', mounts=[dict(ns='n1', values={'x': 2}), dict(ns='n2', values={'x': 1})]),
        'c11': dict(build='mounts-ctx', mounts=[dict(ns='n1', values={'x': 1}), dict(ns='n2', values={'x': 1})]),
        # the pipeline is a PART of a multi-config YAML file, mounted twice by '#part as ns' references
        'p21': dict(build='mounts-ctx-multi', mounts=[dict(ns='n1', values={'x': 2}), dict(ns='n2', values={'x': 1})]),
    },
    lists=[['u1'], ['m12'], ['c21'], ['c11'], ['p21'], ['u1', 'm12'], ['u1', 'p21'], ['ml', 'mr'], ['ml'], ['mr']],
)

# ---- diamond with groups and a by-name / InputTaskParameter wiring
family(
    'diamond',
    tasks=[
        _t('a', [P('x')]),
        _t('g:b', [P('y', default='s')], [('a', 'class')], ['a']),
        _t('h:g:c', [], [('a', 'name')], [], registry_pulls=['a']),
        _t('d', [P('w', default=[1, 2])], [('g:b', 'class'), ('c', 'name')], ['b', 'c']),
    ],
    rcs={
        'd1': dict(build='file', mounts=[dict(ns=None, values={'x': 1})]),
        'd2': dict(build='dict', mounts=[dict(ns=None, values={'x': 1, 'y': 't'})]),
        'd3': dict(build='context', mounts=[dict(ns=None, values={'x': 3, 'w': [2, 1]})]),
    },
    lists=[['d1'], ['d2'], ['d3'], ['d1', 'd2'], ['d2', 'd3']],
)


# ---- kinds: one task per storable data type on a JSON source
family(
    'kinds',
    tasks=[
        _t('a', [P('x')]),
        _t('n', [], [('a', 'class')], ['a'], kind='numpy'),
        _t('p', [], [('n', 'class')], ['n'], kind='pandas'),
        _t('g', [], [('a', 'class')], ['a'], kind='generated'),
        _t('l', [], [('g', 'class')], ['g'], kind='lazy'),
        _t('ln', [], [('a', 'class')], ['a'], kind='listnpy'),
        _t('d', [], [('ln', 'class')], ['ln'], kind='dir'),
    ],
    rcs={
        'k1': dict(build='file', mounts=[dict(ns=None, values={'x': 1})]),
        'k2': dict(build='dict', mounts=[dict(ns=None, values={'x': 2})]),
    },
    lists=[['k1'], ['k2'], ['k1', 'k2']],
)

# ---- pair: the smallest pipeline, for exhaustive PATH exploration with two chain variables (state the model does
# not have - memos, caches inside the objects - only shows up on particular call sequences)
family(
    'pair',
    tasks=[
        _t('a', [P('x')]),
        _t('b', [], [('a', 'class')], ['a']),
    ],
    rcs={'q1': dict(build='dict', mounts=[dict(ns=None, values={'x': 1})])},
    lists=[['q1']],
)

# ---- names: configs whose names are prefixes of one another (results are named after the config in name mode)
family(
    'names',
    tasks=[
        _t('a', [P('x')]),
        _t('b', [], [('a', 'class')], ['a']),
        _t('m', [], [('a', 'class')], ['a'], kind='mem'),
        _t('dd', [], [('a', 'class')], ['a'], kind='dir'),      # a directory result: <task>/<config name>/
    ],
    rcs={
        'model': dict(build='file', mounts=[dict(ns=None, values={'x': 1})]),
        'model.large': dict(build='file', mounts=[dict(ns=None, values={'x': 2})]),
        'model_x': dict(build='dict', mounts=[dict(ns=None, values={'x': 3})]),
        'top1': dict(build='uses-common', mounts=[dict(ns=None, values={'x': 5}, tasks=['a', 'm', 'dd'], cfg='common'),
                                                  dict(ns=None, values={}, tasks=['b'])]),
        'top2': dict(build='uses-common', mounts=[dict(ns=None, values={'x': 5}, tasks=['a', 'm', 'dd'], cfg='common'),
                                                  dict(ns=None, values={}, tasks=['b'])]),
        # two PARTS of one multi-config file (exp.yaml#small, exp.yaml#large): two configurations, two config names
        'exp#small': dict(build='multi-part', mounts=[dict(ns=None, values={'x': 7})]),
        'exp#large': dict(build='multi-part', mounts=[dict(ns=None, values={'x': 8})]),
    },
    lists=[['model'], ['model.large'], ['model_x'], ['model', 'model.large'], ['top1'], ['top2'], ['top1', 'top2'],
           ['exp#small'], ['exp#large'], ['exp#small', 'exp#large']],
)

# ---- deep: a <- b <- c <- e, the configurations differ only at the far end (chain-specific task below shared ones)
family(
    'deep',
    tasks=[
        _t('a', [P('x')]),
        _t('b', [], [('a', 'class')], ['a']),
        _t('c', [], [('b', 'name')], ['b']),
        _t('e', [P('w')], [('c', 'class')], ['c']),
    ],
    rcs={
        'e1': dict(build='dict', mounts=[dict(ns=None, values={'x': 1, 'w': 1})]),
        'e2': dict(build='file', mounts=[dict(ns=None, values={'x': 1, 'w': 2})]),
    },
    lists=[['e1'], ['e2'], ['e1', 'e2']],
)


# ---- levels: a pipeline a <- b mounted `as lo` below a config whose task `top` reads lo::b (a by-name input from an
#      inner namespace) and its own a; the inner pipeline alone is a configuration too (results shared across chains)
family(
    'levels',
    tasks=[
        _t('a', [P('x')]),
        _t('b', [], [('a', 'class')], ['a']),
        _t('top', [], [('lo::b', 'name'), ('a', 'class')], ['a'], registry_pulls=['lo::b']),
        # a task whose NAME is the name of the namespace it reads from (its full name is a prefix of its input's)
        _t('lo', [], [('lo::b', 'name')], [], registry_pulls=['lo::b']),
        # reads the same task from TWO namespaces below it: which mount carries which computation matters
        _t('cmp', [], [('p1::a', 'name'), ('p2::a', 'name')], [], registry_pulls=['p1::a', 'p2::a']),
    ],
    rcs={
        'v1': dict(build='nested-files', mounts=[dict(ns=None, values={'x': 1}, tasks=['a', 'b'])]),
        'v2': dict(build='nested-files', mounts=[dict(ns=None, values={'x': 2}, tasks=['a', 'top', 'lo']),
                                                 dict(ns='lo', values={'x': 1}, tasks=['a', 'b'])]),
        'v3': dict(build='nested-files', mounts=[dict(ns=None, values={'x': 2}, tasks=['a', 'top']),
                                                 dict(ns='lo', values={'x': 2}, tasks=['a', 'b'])]),
        # the configuration v2, itself mounted one level down (`as mid`): mid::top reads mid::lo::b - the same computations
        'v4': dict(build='nested-files', mounts=[dict(ns=None, values={}, tasks=[]),
                                                 dict(ns='mid', values={'x': 2}, tasks=['a', 'top']),
                                                 dict(ns='mid::lo', values={'x': 1}, tasks=['a', 'b'])]),
        # one consumer over two mounts, the computations exchanged between them
        's12': dict(build='nested-files', mounts=[dict(ns=None, values={}, tasks=['cmp']),
                                                  dict(ns='p1', values={'x': 1}, tasks=['a']),
                                                  dict(ns='p2', values={'x': 2}, tasks=['a'])]),
        's21': dict(build='nested-files', mounts=[dict(ns=None, values={}, tasks=['cmp']),
                                                  dict(ns='p1', values={'x': 2}, tasks=['a']),
                                                  dict(ns='p2', values={'x': 1}, tasks=['a'])]),
    },
    # (['v2', 'v4'] - one computation at two namespace depths inside ONE MultiChain - is used by C13 only: known finding D23)
    lists=[['v1'], ['v2'], ['v3'], ['v4'], ['s12'], ['s21'], ['v1', 'v2'], ['v2', 'v3'], ['s12', 's21']],
)


# ---- wiring: the remaining forms of input declaration - a ~pattern input (every task named a, any group) and an
#      optional input (InputTaskParameter with a default) that some configurations provide and others do not
family(
    'wiring',
    tasks=[
        _t('a', [P('x')]),
        _t('g:a', [P('y', default=0)]),
        _t('b', [], [('a', 'class')], ['a']),
        _t('pat', [], [('~(.*:)?a', 'name')], [], registry_pulls=['a', 'g:a']),
        _t('opt', [], [('b', 'param', {'default': None, 'by_class': False})], [], opt_pulls=['b']),
    ],
    rcs={
        'w1': dict(build='nested-files', mounts=[dict(ns=None, values={'x': 1}, tasks=['a', 'g:a', 'pat', 'opt'])]),
        'w2': dict(build='nested-files', mounts=[dict(ns=None, values={'x': 1}, tasks=['a', 'b', 'opt'])]),
        'w3': dict(build='nested-files', mounts=[dict(ns=None, values={'x': 1, 'y': 2}, tasks=['a', 'g:a', 'b', 'pat', 'opt'])]),
        # the optional input exists only INSIDE a namespace mounted below: the root task must not pick it up
        'w4': dict(build='nested-files', mounts=[dict(ns=None, values={'x': 1}, tasks=['a', 'opt']),
                                                 dict(ns='lo', values={'x': 1}, tasks=['a', 'b'])]),
    },
    lists=[['w1'], ['w2'], ['w3'], ['w4'], ['w1', 'w2'], ['w1', 'w3'], ['w2', 'w3'], ['w2', 'w4']],
)


# --------------------------------------------------------------------------- expected resolution (P-level)
def task_by_slug(fam):
    return {t['slug']: t for t in fam['tasks']}


def _short(slug):
    return slug.split(':')[-1]


def resolve_slug(fam, ref):
    """A declared input reference (slug, or a short name) -> slug, inside one pipeline.  A reference into an inner
    namespace ('lo::b') keeps its namespace part."""
    if '::' in ref:
        nsp, _, r = ref.rpartition('::')
        return f'{nsp}::{resolve_slug(fam, r)}'
    slugs = [t['slug'] for t in fam['tasks']]
    if ref in slugs:
        return ref
    cand = [s for s in slugs if _short(s) == ref or s.endswith(':' + ref)]
    assert len(cand) == 1, (ref, cand)
    return cand[0]


def persisted(tspec, values):
    out = []
    for p in sorted(tspec['params'], key=lambda p: p['name']):
        key = p.get('name_in_config') or p['name']
        v = values[key] if key in values else p.get('default')
        if p.get('ignore'):
            continue
        if p.get('dpd') and 'default' in p and v == p['default']:
            continue
        out.append([p['name'], json.dumps(v, sort_keys=True)])
    return out


def resolution(fam, rcname):
    """{node fullname: {slug, pval, deps [nodes], pulls [nodes], values}}"""
    rc = fam['rcs'][rcname]
    by = task_by_slug(fam)
    nodes = {}
    for mi, mount in enumerate(rc['mounts']):
        pre = f"{mount['ns']}::" if mount['ns'] else ''
        for t in fam['tasks']:
            if 'tasks' in mount and t['slug'] not in mount['tasks']:
                continue
            here = [u['slug'] for u in fam['tasks'] if 'tasks' not in mount or u['slug'] in mount['tasks']]
            deps = []
            for i in t['inputs']:
                if i['ref'].startswith('~'):      # ~(.*:)?NAME : every task of this mount named NAME, in any group
                    nm = i['ref'].rsplit('?', 1)[-1]
                    deps += [pre + u for u in here if _short(u) == nm]
                elif 'default' in i and '::' not in i['ref'] and resolve_slug(fam, i['ref']) not in here:
                    continue                      # an optional input this configuration does not provide
                else:
                    deps.append(pre + resolve_slug(fam, i['ref']))
            pulls = [pre + resolve_slug(fam, r) for r in list(t['pulls']) + list(t.get('registry_pulls', []))]
            opt = [r for r in t.get('opt_pulls', []) if resolve_slug(fam, r) in here]
            pulls += [pre + resolve_slug(fam, r) for r in opt]
            nodes[pre + t['slug']] = dict(slug=t['slug'], pval=persisted(t, mount['values']), deps=deps, pulls=pulls,
                                          values=mount['values'], ns=mount['ns'], opt=opt,
                                          cfgname=mount.get('cfg') or config_name(rcname, rc, mi))
    return nodes


def desc(res, node, name_mode=False):
    n = res[node]
    if name_mode:
        return (n['slug'], n['cfgname'])
    return (n['slug'], tuple((k, v) for k, v in n['pval']), tuple(desc(res, d) for d in n['deps']))


def config_name(rcname, rc, i):
    """the name of the config that declares the tasks of mount i (as build_config realises it)"""
    b = rc['build']
    if b == 'nested-files':
        return rcname if i == 0 else f'{rcname}_m{i}'
    if b == 'multi-part':
        return rcname
    return {'dict': rcname, 'file': rcname, 'context': f'{rcname}_pipe', 'mounts-files': f'{rcname}_m{i}',
            'mounts-ctx': f'{rcname}_pipe', 'mounts-ctx-multi': f'{rcname}#pipe', 'uses-common': rcname}[b]


def ref_tree(fam, res, node):
    """The value the node's run must produce (the provenance tree over the inputs it reads)."""
    n = res[node]
    t = task_by_slug(fam)[n['slug']]
    names = list(t['pulls']) + list(t.get('registry_pulls', [])) + list(n.get('opt', []))
    return {'t': n['slug'], 'p': {k: json.loads(v) for k, v in n['pval']},
            'i': {a: ref_tree(fam, res, d) for a, d in zip(names, n['pulls'])}}


class Model:
    """Numbering of computations and the TLA+ constants of a family."""

    def __init__(self, fam, rcs=None, lists=None, collide=None, name_mode=False):
        self.fam = fam
        self.name_mode = name_mode
        self.rcs = list(rcs or fam['rcs'])
        self.res = {rc: resolution(fam, rc) for rc in self.rcs}
        self.lists = [l for l in (lists or fam['lists']) if all(r in self.rcs for r in l)]
        self.did = {}
        self.descs = []
        for rc in self.rcs:
            for node in self.res[rc]:
                d = desc(self.res[rc], node, name_mode)
                if d not in self.descs:
                    self.descs.append(d)
                self.did[(rc, node)] = self.descs.index(d) + 1
        self.nd = len(self.descs)
        # storage locations: identity, unless a collision is being modelled (collide: list of sets of desc ids)
        self.keyof = {d: d for d in range(1, self.nd + 1)}
        for group in collide or []:
            for d in group:
                self.keyof[d] = min(group)
        self.kind = {t['slug']: t['kind'] for t in fam['tasks']}

    def rep(self, d):
        return next(k for k, v in self.did.items() if v == d)

    def ref(self, d):
        rc, node = self.rep(d)
        return ref_tree(self.fam, self.res[rc], node)

    def slug(self, d):
        rc, node = self.rep(d)
        return self.res[rc][node]['slug']

    def constants(self, force_sets='small'):
        from .tlc import tla

        def fn(f):
            return {rc: {n: f(rc, n, self.res[rc][n]) for n in self.res[rc]} for rc in self.rcs}

        fs = {}
        for rc in self.rcs:
            nodes = sorted(self.res[rc])
            if force_sets == 'all':
                sets = [set(c) for r in range(0, len(nodes) + 1) for c in __import__('itertools').combinations(nodes, r)]
            else:
                sets = [{n} for n in nodes] + ([set(nodes[:2])] if len(nodes) > 1 else [])
            fs[rc] = [frozenset(s) for s in sets]
        persists = {t['slug']: t['kind'] != 'mem' for t in self.fam['tasks']}
        c = {
            'RCs': tla(set(self.rcs)),
            'Nodes': tla({rc: set(self.res[rc]) for rc in self.rcs}),
            'Class': tla(fn(lambda rc, n, r: r['slug'])),
            'PVal': tla(fn(lambda rc, n, r: r['pval'])),
            'Deps': tla(fn(lambda rc, n, r: r['deps'])),
            'Pulls': tla(fn(lambda rc, n, r: r['pulls'])),
            'Persists': tla(persists),
            'DescId': tla(fn(lambda rc, n, r: self.did[(rc, n)])),
            'ND': str(self.nd),
            'KeyOf': tla([self.keyof[d] for d in range(1, self.nd + 1)]),
            'NK': str(self.nd),
            'NameMode': 'TRUE' if self.name_mode else 'FALSE',
            'CfgName': tla(fn(lambda rc, n, r: r['cfgname'])),
            'Lists': '{' + ', '.join(tla(l) for l in self.lists) + '}',
            'ForceSets': '(' + ' @@ '.join(
                f'{tla(rc)} :> {{' + ', '.join(tla(set(s)) if s else '{}' for s in fs[rc]) + '}' for rc in self.rcs) + ')',
        }
        return c


# --------------------------------------------------------------------------- realisation (real configs)
_modules = {}


def module_for(fam):
    if fam['name'] not in _modules:
        specs = [json.loads(json.dumps(t)) for t in fam['tasks']]
        by = {t['slug']: t for t in specs}
        shorts = [_short(t['slug']) for t in specs]
        for t in specs:
            if shorts.count(_short(t['slug'])) > 1 and 'cls_name' not in t:   # a and g:a: two classes, two class names
                t['cls_name'] = ''.join(w.capitalize() for w in t['slug'].replace(':', '_').split('_')) + 'Task'
            names = list(t['pulls']) + list(t.get('registry_pulls', [])) + list(t.get('opt_pulls', []))
            t['input_kinds'] = {a: by[resolve_slug(fam, a).split('::')[-1]]['kind'] for a in names}
        _modules[fam['name']] = gen.make_module(specs, fam['module'])
    return _modules[fam['name']]


def build_config(fam, rcname, base_dir, workdir, variant=0):
    """Build the real Config of a resolved chain, in the way the family prescribes."""
    from taskchain import Config

    mod = module_for(fam)
    rc = fam['rcs'][rcname]
    workdir = Path(workdir)
    workdir.mkdir(parents=True, exist_ok=True)
    classes = [mod.CLASSES[t['slug']] for t in fam['tasks']]
    strings = [f"{fam['module']}.{c.__name__}" for c in classes]
    build = rc['build']
    m0 = rc['mounts'][0]
    if build == 'dict':
        return Config(base_dir, name=rcname, data={'tasks': list(classes), **json.loads(json.dumps(m0['values']))})
    if build == 'file':
        f = workdir / f'{rcname}.json'
        f.write_text(json.dumps({'tasks': strings, **m0['values']}))
        return Config(base_dir, f)
    if build == 'context':
        f = workdir / f'{rcname}_pipe.json'
        f.write_text(json.dumps({'tasks': f"{fam['module']}.*"}))
        return Config(base_dir, f, context=json.loads(json.dumps(m0['values'])))
    if build == 'uses-common':
        # mounts[0]: the tasks of a config file shared by several configurations (same path for all of them)
        common = workdir.parent / f"{rc['mounts'][0]['cfg']}.json"
        cm = rc['mounts'][0]
        common.write_text(json.dumps({'tasks': [s_ for s_, c in zip(strings, classes) if c._vspec['slug'] in cm['tasks']],
                                      **cm['values']}))
        own = rc['mounts'][1]
        f = workdir / f'{rcname}.json'
        f.write_text(json.dumps({'tasks': [s_ for s_, c in zip(strings, classes) if c._vspec['slug'] in own['tasks']],
                                 'uses': [str(common)], **own['values']}))
        return Config(base_dir, f)
    if build == 'nested-files':
        # mount i is the file <rc>_m<i>.json (the root: <rc>.json) declaring the mount's own task set; a file uses the
        # mounts directly below it `as <last namespace component>`
        files = {m['ns']: workdir / (f'{rcname}.json' if i == 0 else f'{rcname}_m{i}.json') for i, m in enumerate(rc['mounts'])}
        for m in rc['mounts']:
            mine = [f"{fam['module']}.{mod.CLASSES[t['slug']].__name__}" for t in fam['tasks']
                    if 'tasks' not in m or t['slug'] in m['tasks']]
            doc = {'tasks': mine, **m['values']}
            below = [n for n in files if n is not None and (n.rpartition('::')[0] or None) == m['ns']]
            if below:
                doc['uses'] = [f"{files[n]} as {n.rpartition('::')[2]}" for n in below]
            files[m['ns']].write_text(json.dumps(doc))
        return Config(base_dir, files[None])
    if build == 'mounts-files':
        uses = []
        for i, m in enumerate(rc['mounts']):
            f = workdir / f'{rcname}_m{i}.json'
            f.write_text(json.dumps({'tasks': strings, **m['values']}))
            uses.append(f'{f} as {m["ns"]}')
        root = workdir / f'{rcname}.json'
        root.write_text(json.dumps({'uses': uses}))
        return Config(base_dir, root)
    if build == 'multi-part':
        import yaml
        stem, part = rcname.split('#')
        parts = {r.split('#')[1]: fam['rcs'][r]['mounts'][0]['values'] for r in fam['rcs'] if r.startswith(stem + '#')}
        shared = workdir.parent / f'multi_{stem}'      # ONE file for all its parts, whichever configuration is built
        shared.mkdir(parents=True, exist_ok=True)
        f = shared / f'{stem}.yaml'
        f.write_text(yaml.safe_dump({'configs': {k: {'tasks': strings, **v} for k, v in parts.items()}}, sort_keys=False))
        return Config(base_dir, f'{f}#{part}')
    if build == 'mounts-ctx-multi':
        import yaml
        root = workdir / f'{rcname}.yaml'
        root.write_text(yaml.safe_dump({'configs': {
            'main': {'main_part': True, 'uses': [f'#pipe as {m["ns"]}' for m in rc['mounts']]},
            'pipe': {'tasks': strings, 'x': 0}}}, sort_keys=False))
        ctx = {'for_namespaces': {m['ns']: json.loads(json.dumps(m['values'])) for m in rc['mounts']}}
        return Config(base_dir, root, context=ctx)
    if build == 'mounts-ctx':
        pipe = workdir / f'{rcname}_pipe.json'
        pipe.write_text(json.dumps({'tasks': strings}))
        root = workdir / f'{rcname}.json'
        root.write_text(json.dumps({'uses': [f'{pipe} as {m["ns"]}' for m in rc['mounts']]}))
        ctx = {'for_namespaces': {m['ns']: json.loads(json.dumps(m['values'])) for m in rc['mounts']}}
        return Config(base_dir, root, context=ctx)
    raise ValueError(build)
