"""Code -> spec: the repository's own test-suite, run under the observation plugin, validated against StoreTrace.tla."""
import json
import os
import subprocess
import sys

from .core import REPO, VERIF, MachineryError, scratch
from .tlc import account, run_tlc


def record(ctx):
    out = scratch('suite-traces') / 'traces.json'
    env = dict(os.environ, TCVERIF_TRACE_FILE=str(out), PYTHONPATH=f'{VERIF}/harness:{REPO}/src', TQDM_DISABLE='1')
    p = subprocess.run([sys.executable, '-m', 'pytest', '-q', '-p', 'no:cacheprovider', '-p', 'tcverif.pytest_trace',
                        '-x', '--no-header', 'tests'], cwd=str(REPO), env=env, capture_output=True, text=True, timeout=1200)
    if not out.exists():
        raise MachineryError(f'the test-suite produced no traces:\n{p.stdout[-1500:]}\n{p.stderr[-800:]}')
    return json.loads(out.read_text()), p.stdout.strip().splitlines()[-1] if p.stdout.strip() else ''


def validate(ctx, traces, label='repository test-suite'):
    """TLC validates every trace; returns [(test, first unmatched index, event, context events)]."""
    traces = [t for t in traces if t['events']]
    if not traces:
        raise MachineryError('no events recorded')
    max_task = max((max([e[1] for e in t['events']] + [1]) for t in traces))
    max_loc = max((max([e[2] for e in t['events'] if e[0] in 'ELSDX' and len(e) > 2] + [1]) for t in traces))
    data = scratch('suite-traces') / 'events.json'
    data.write_text(json.dumps([t['events'] for t in traces]))
    cfg = (f'CONSTANTS\n  MaxTask = {max_task}\n  MaxLoc = {max_loc}\nINIT Init\nNEXT Next\nCONSTRAINT Reach\n'
           'POSTCONDITION Verdicts\n')
    res = run_tlc('StoreTrace', cfg_text=cfg, workers=1, timeout=1200, env={'TCVERIF_TRACE_JSON': str(data)})
    account(ctx, res, f'StoreTrace: {len(traces)} traces / {sum(len(t["events"]) for t in traces)} events of the {label}')
    verdicts = {v['trace']: v for v in res.by_tag('TV')}
    if len(verdicts) != len(traces):
        raise MachineryError(f'StoreTrace returned {len(verdicts)} verdicts for {len(traces)} traces')
    rejected = []
    for i, t in enumerate(traces, 1):
        v = verdicts[i]
        if v['matched'] < v['len']:
            k = v['matched']
            rejected.append((t['test'], k, t['events'][k], t['events'][max(0, k - 8):k], t.get('tasks', {})))
    return len(traces), rejected


def selftest(ctx, traces):
    """Demonstrate the binding: corrupted traces must be rejected (else the trace spec constrains nothing)."""
    import copy

    muts = []
    for t in traces:
        ev = t['events']
        for i, e in enumerate(ev):
            if e[0] == 'E' and e[3] and len(muts) < 4:          # exists() answer flipped
                m = copy.deepcopy(ev)
                m[i][3] = False
                if any(x[0] == 'L' for x in m[i:i + 2]):
                    muts.append({'test': f'flip-exists:{t["test"]}', 'events': m})
            if e[0] == 'F' and len(muts) < 8 and any(x[0] == 'R' for x in ev[i:]):   # a force() dropped
                m = [x for j, x in enumerate(ev) if j != i]
                muts.append({'test': f'drop-force:{t["test"]}', 'events': m})
            if e[0] == 'R' and i + 1 < len(ev) and len(muts) < 12:   # run entered twice
                m = ev[:i + 1] + [e] + ev[i + 1:]
                muts.append({'test': f'double-run:{t["test"]}', 'events': m})
    if not muts:
        raise MachineryError('no mutation of the recorded traces could be built for the binding self-test')
    n, rejected = validate(ctx, muts, label='binding self-test (corrupted traces)')
    rej = {r[0] for r in rejected}
    accepted = [m['test'] for m in muts if m['test'] not in rej and not m['test'].startswith('drop-force')]
    ctx.extra['binding_selftest'] = {'corrupted_traces': len(muts), 'rejected': len(rej)}
    if accepted:
        raise MachineryError(f'binding self-test: corrupted traces were ACCEPTED by StoreTrace: {accepted[:3]}')
