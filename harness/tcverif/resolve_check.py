"""Binding of specs/Resolve.tla (C08, C09): TLC enumerates config forests and prints the property-level resolution
of each; every forest is built as real files / contexts and a real Chain and compared."""
import copy
import json
import os
import random
import shutil

from . import gen
from .core import scratch
from .procs import pmap
from .tlc import account, run_tlc, tla

MODULE = 'vgen.resolve'
BAD = 99  # NotAnInt of the spec: rendered as a string value
NULL = 98  # an explicit null in the config (a value like any other: it overrides the default)

CLASS_SPECS = [
    dict(cls='a', slug='a', params=[dict(name='x', dtype=int)], run_params=['x']),
    dict(cls='b', slug='b', params=[dict(name='y', default=5)], run_params=['y'], inputs=[dict(ref='a', how='class')],
         pulls=['a']),
    dict(cls='c', slug='c', inputs=[dict(ref='a', how='name'), dict(ref='b', how='param', default=None)], pulls=['a']),
    dict(cls='d', slug='d', inputs=[dict(ref='train_x', how='class')], pulls=['train_x']),
    dict(cls='trainx', slug='train_x'),
    dict(cls='ge', slug='g:e'),
    dict(cls='f', slug='f', inputs=[dict(ref='e', how='name')], pulls=['e']),
    dict(cls='pat', slug='pat', inputs=[dict(ref='~(.*:)?a', how='name')]),
    dict(cls='cy1', slug='cy1', inputs=[dict(ref='cy2', how='name')]),
    dict(cls='cy2', slug='cy2', inputs=[dict(ref='cy1', how='name')]),
    dict(cls='z', slug='z', abstract=True),
    dict(cls='w', slug='g:a', params=[dict(name='x', name_in_config='xw', default=0, dtype=int)], run_params=['x']),
    dict(cls='bsub', slug='bsub', base='b', inputs=[dict(ref='a', how='name')], pulls=['a']),
    dict(cls='both', slug='both', inputs=[dict(ref='g:a', how='name'), dict(ref='a', how='name')]),
    dict(cls='both2', slug='both2', inputs=[dict(ref='a', how='name'), dict(ref='g:a', how='name')]),
    dict(cls='gb', slug='g:b'),
    dict(cls='mi', slug='mi', inputs=[dict(ref='a', how='name')], pulls=['a'], meta_inherit=True),
    dict(cls='selfpat', slug='h:a', inputs=[dict(ref='~(.*:)?a', how='name')]),
    dict(cls='ol', slug='ol', inputs=[dict(ref='a', how='param_in_list', default=None), dict(ref='b', how='name')]),
]
CLSNAME = {s['cls']: 'R' + s['cls'].capitalize() + 'Task' for s in CLASS_SPECS}


def module():
    import sys

    if MODULE in sys.modules:
        return sys.modules[MODULE]
    specs = []
    for s in CLASS_SPECS:
        specs.append(dict(slug=s['slug'], cls_name=CLSNAME[s['cls']], params=copy.deepcopy(s.get('params', [])),
                          run_params=list(s.get('run_params', [])), pulls=list(s.get('pulls', [])),
                          inputs=copy.deepcopy(s.get('inputs', [])), kind='json', abstract=s.get('abstract', False),
                          meta_inherit=s.get('meta_inherit', False),
                          base=s.get('base')))
    return gen.make_module(specs, MODULE)


# --------------------------------------------------------------------------- menus (Python -> TLA+)
def U(f, ns=''):
    return {'f': f, 'ns': ns}


def menus(tier):
    targets = [U(f, ns) for f in ('P1', 'P2') for ns in ('', 'n', 'train')]
    root_uses = [[]] + [[u] for u in targets] + [[u, v] for u in targets for v in targets]
    root_tasks = [[], ['trainx'], ['a'], ['c']]
    p1 = []
    for tasks in (['a', 'b'], ['a', 'b', 'z'], ['a', 'c'], ['b'], ['a', 'w', 'pat'], ['cy1', 'cy2'], ['a', 'b', 'bsub'],
                  ['a', 'w', 'both', 'both2'], ['a', 'both'], ['a', 'c', 'gb'], ['a', 'mi'], ['a', 'selfpat'], ['a', 'b', 'ol'], ['a', 'ol']):
        for vals in ({}, {'x': 1}):
            for uses in ([], [U('P2')], [U('P2', 'n')]):
                if tasks in (['b'], ['cy1', 'cy2']) and vals:
                    continue
                p1.append(dict(tasks=tasks, excl=[], vals=vals, uses=uses))
    # excluding a class does not exclude the classes derived from it
    p1.append(dict(tasks=['a', 'b', 'bsub'], excl=['b'], vals={'x': 1}, uses=[]))
    p1.append(dict(tasks=['a', 'b', 'bsub'], excl=['b'], vals={'x': 1}, uses=[U('P2', 'n')]))
    p2 = []
    for tasks in (['a'], ['trainx', 'd'], ['ge', 'f'], ['a', 'b']):
        for excl in ([], ['a']):
            for vals in ({}, {'x': 2}, {'x': BAD}):
                if 'a' not in tasks and (excl or vals):
                    continue
                p2.append(dict(tasks=tasks, excl=excl, vals=vals, uses=[]))
    src = lambda glob=None, forns=None, uses=None: dict(glob=glob or {}, forns=forns or [], uses=uses or [])  # noqa
    ctx = [
        [],
        [src({'x': 7})],
        [src(forns=[dict(ns=['n'], vals={'x': 8})])],
        [src({'x': 7}, [dict(ns=['n'], vals={'x': 8})])],
        [src({'x': 7}), src({'x': 9, 'y': 1})],
        [src(forns=[dict(ns=['n', 'n'], vals={'x': 6}), dict(ns=['train'], vals={'xw': 3})])],
        [src({'y': 2}, uses=[dict(src=src({'x': 4}, [dict(ns=['n'], vals={'x': 3})]), ns='n')])],
        [src(forns=[dict(ns=['n'], vals={'x': 8})]), src(forns=[dict(ns=['n'], vals={'y': 3})])],
        [src({'y': NULL, 'xw': NULL})],
        [src({'x': 7}, [dict(ns=['n'], vals={'x': NULL})])],
    ]
    return dict(RootUsesMenu=root_uses, RootTasksMenu=root_tasks, P1Menu=p1, P2Menu=p2, CtxMenu=ctx)


def _tla_vals(v):
    return '<<>>' if not v else '[' + ', '.join(f'{k} |-> {x}' for k, x in v.items()) + ']'


def _tla_uses(us):
    return '<<' + ', '.join(f'[f |-> {tla(u["f"])}, ns |-> {tla(u["ns"])}]' for u in us) + '>>'


def _tla_src(s):
    forns = '<<' + ', '.join(f'[ns |-> {tla(p["ns"])}, vals |-> {_tla_vals(p["vals"])}]' for p in s['forns']) + '>>'
    uses = '<<' + ', '.join(f'[src |-> {_tla_src(u["src"])}, ns |-> {tla(u["ns"])}]' for u in s['uses']) + '>>'
    return f'[glob |-> {_tla_vals(s["glob"])}, forns |-> {forns}, uses |-> {uses}]'


def _tla_file(f):
    return (f'[tasks |-> {tla(set(f["tasks"]))}, excl |-> {tla(set(f["excl"])) if f["excl"] else "{}"}, '
            f'vals |-> {_tla_vals(f["vals"])}, uses |-> {_tla_uses(f["uses"])}]')


def mc_impl(tier, seed, mod, prefix_sep=True, class_exact=True):
    """the implementation-level algorithm (ResolveImpl.tla) against the property level, on the same forests"""
    text, cfg, sizes = mc(tier, seed, mod, emit=False)
    text = text.replace('MODULE MCResolve', 'MODULE MCResolveImpl').replace('EXTENDS Resolve', 'EXTENDS ResolveImpl')
    cfg = cfg.replace('INIT Init', f'  PrefixSep = {"TRUE" if prefix_sep else "FALSE"}\n  ClassRefExact = {"TRUE" if class_exact else "FALSE"}\nINIT Init')
    cfg = cfg[:cfg.index('INIT Init')] + 'INIT InitI\nNEXT NextI\nINVARIANT ImplConforms\nINVARIANT MountsConform\n'
    return text, cfg, sizes


def mc(tier, seed, mod, emit=True):
    m = menus(tier)
    defs = {
        'RootUsesMenu': '<<' + ', '.join(_tla_uses(u) for u in m['RootUsesMenu']) + '>>',
        'RootTasksMenu': '<<' + ', '.join(tla(set(t)) if t else '{}' for t in m['RootTasksMenu']) + '>>',
        'P1Menu': '<<' + ', '.join(_tla_file(f) for f in m['P1Menu']) + '>>',
        'P2Menu': '<<' + ', '.join(_tla_file(f) for f in m['P2Menu']) + '>>',
        'CtxMenu': '<<' + ', '.join('<<' + ', '.join(_tla_src(s) for s in c) + '>>' for c in m['CtxMenu']) + '>>',
    }
    text = '---- MODULE MCResolve ----\nEXTENDS Resolve\n' + '\n'.join(f'c_{k} == {v}' for k, v in defs.items()) + '\n====\n'
    cfg = ('CONSTANTS\n' + '\n'.join(f'  {k} <- c_{k}' for k in defs) +
           f'\n  Seed = {seed % mod}\n  Mod = {mod}\n  Emit = {"TRUE" if emit else "FALSE"}\n'
           'INIT Init\nNEXT Next\nINVARIANT NoLeak\nINVARIANT Precedence\nINVARIANT EdgesLocal\nINVARIANT TasksExact\n'
           'INVARIANT ClosureLaw\nINVARIANT EmitCase\n')
    sizes = {k: len(v) for k, v in m.items()}
    return text, cfg, sizes


# --------------------------------------------------------------------------- realisation
def name_text(t):
    g = ':'.join(list(t['grp']) + [t['name']])
    return '::'.join(list(t['ns']) + [g])


def _val(v):
    return 'bad' if v == BAD else (None if v == NULL else v)


def _vals(d):
    if isinstance(d, list):  # an empty TLA+ function arrives as an empty JSON array
        return {}
    return {k: _val(v) for k, v in d.items()}


def _src_to_obj(s, work, counter, as_file):
    """A context source as the dict (or file) a user would write."""
    d = dict(_vals(s['glob']))
    if s['forns']:
        fn = {}
        for p in s['forns']:
            fn.setdefault('::'.join(p['ns']), {}).update(_vals(p['vals']))
        d['for_namespaces'] = fn
    if s['uses']:
        us = []
        for u in s['uses']:
            counter[0] += 1
            f = work / f'ctx_used_{counter[0]}.json'
            f.write_text(json.dumps(_src_to_obj(u['src'], work, counter, False)))
            us.append(f'{f} as {u["ns"]}' if u['ns'] else str(f))
        d['uses'] = us
    if as_file:
        counter[0] += 1
        if counter[0] % 2:
            f = work / f'ctx_{counter[0]}.json'
            f.write_text(json.dumps(d))
        else:
            import yaml

            f = work / f'ctx_{counter[0]}.yaml'
            f.write_text(yaml.safe_dump(d))
        return f
    return d


def build(forest, work, rng):
    """Write the forest as files and return (root config path, context object given by the caller).

    Realisation varies at random (seeded): JSON / YAML, declaration order, and P1 + P2 as the parts of ONE
    multi-config file (`#part` references, `main_part`) instead of two files - all of which leave the resolution
    unchanged."""
    import yaml

    files = {'R': dict(tasks=forest['rootTasks'], excl=[], vals={}, uses=forest['rootUses']), 'P1': forest['p1'],
             'P2': forest['p2']}
    ext = {f: ('json' if rng.random() < 0.6 else 'yaml') for f in files}
    multi = rng.random() < 0.35
    samestem = (not multi) and rng.random() < 0.3      # P1 and P2 are both called params.<ext>, in two directories
    pm = work / f'PM.{ext["P1"]}'

    def ref(target, inside=None):
        """how a config refers to file `target`"""
        if multi and target in ('P1', 'P2'):
            if inside in ('P1', 'P2'):
                return f'#{target.lower()}'
            if target == 'P1' and rng.random() < 0.5:
                return str(pm)               # the part marked main_part
            return f'{pm}#{target.lower()}'
        if samestem and target in ('P1', 'P2'):
            return str(work / target.lower() / f'params.{ext[target]}')
        return str(work / f'{target}.{ext[target]}')

    docs = {}
    for name, f in files.items():
        tasks = [f'{MODULE}.{CLSNAME[c]}' for c in f['tasks']]
        rng.shuffle(tasks)
        data = dict(_vals(f['vals'] if isinstance(f['vals'], dict) else {}))
        items = [('tasks', tasks)]
        if f['excl']:
            items.append(('excluded_tasks', [f'{MODULE}.{CLSNAME[c]}' for c in f['excl']]))
        if f['uses']:
            items.append(('uses', [ref(u['f'], inside=name) + (f" as {u['ns']}" if u['ns'] else '') for u in f['uses']]))
        items += list(data.items())
        rng.shuffle(items)
        docs[name] = dict(items)

    def write(p, doc):
        if str(p).endswith('json'):
            p.write_text(json.dumps(doc))
        else:
            p.write_text(yaml.safe_dump(doc, sort_keys=False))

    if multi:
        write(pm, {'configs': {'p1': dict(docs['P1'], main_part=True), 'p2': docs['P2']}})
        write(work / f'R.{ext["R"]}', docs['R'])
    else:
        for name, doc in docs.items():
            if samestem and name in ('P1', 'P2'):
                (work / name.lower()).mkdir(exist_ok=True)
                write(work / name.lower() / f'params.{ext[name]}', doc)
            else:
                write(work / f'{name}.{ext[name]}', doc)
    counter = [0]
    srcs = forest['ctx']
    if not srcs:
        context = None
    else:
        objs = [_src_to_obj(s, work, counter, as_file=(rng.random() < 0.35)) for s in srcs]
        context = objs[0] if len(objs) == 1 else objs
    return work / f'R.{ext["R"]}', context


def observe(case, idx, seed):
    """Build one forest with the real library; returns list of (category, sig, text)."""
    from taskchain import Config
    from taskchain.task import Task

    module()
    forest, out = case['forest'], case['out']
    if isinstance(forest['p1']['vals'], list):
        forest['p1']['vals'] = {}
    if isinstance(forest['p2']['vals'], list):
        forest['p2']['vals'] = {}
    rng = random.Random(seed * 1000003 + idx)
    work = scratch(f'resolve-{os.getpid()}') / f'c{idx}'
    work.mkdir(parents=True, exist_ok=True)
    bad = []
    brief = _brief(forest)
    try:
        root, context = build(forest, work, rng)
        before = copy.deepcopy(context) if not hasattr(context, 'open') else None
        if context is not None and hasattr(context, 'open') and rng.random() < 0.5:
            # the context file as ONE Context object the caller keeps and uses for two configs: the second config must
            # see what the first one saw (configs share no mutable values with their context or with each other)
            from taskchain.config import Context
            context = Context(filepath=context)
            try:
                Config(work / 'data_first', root, context=context).chain()
            except Exception:  # noqa  (judged on the second build below)
                pass
        try:
            # tasks, wiring and parameter values are the same in name mode - as long as no file is mounted twice (name mode
            # identifies a task by class and config NAME: two mounts of one file are then one task by design)
            files = [m['f'] for m in case.get('mounts', [])]
            once = len(files) == len(set(files)) and bool(files)
            chain = Config(work / 'data', root, context=context).chain(parameter_mode=not (once and rng.random() < 0.3))
            err = None
        except Exception as e:  # noqa
            chain, err = None, e
        if before is not None and context != before:
            bad.append(('ctx-mutated', 'ctx-mutated', f'the caller\'s context object was modified by Config(): '
                                                       f'{before!r} -> {context!r}'))
        if 'error' in out:
            if chain is not None:
                bad.append((f"builds-{out['error']}", f"builds-{out['error']}:{brief}",
                            f"chain construction succeeded although the forest has a {out['error']} error: {brief}"))
            return idx, bad
        if chain is None:
            bad.append(('construct', f'construct:{type(err).__name__}:{str(err)[:60]}:{brief}',
                        f'chain construction failed with {type(err).__name__}: {err} for {brief}'))
            return idx, bad
        exp = {name_text(t['name']): t for t in out['tasks']}
        got = set(chain.tasks)
        if got != set(exp):
            bad.append(('tasks', f'tasks:{brief}', f'chain has tasks {sorted(got)}, declared are {sorted(exp)}: {brief}'))
            return idx, bad
        for name, t in exp.items():
            obj = chain.tasks[name]
            if obj.slugname != next(s['slug'] for s in CLASS_SPECS if s['cls'] == t['cls']):
                bad.append(('tasks', f'class:{brief}', f'{name} is a {obj.slugname}: {brief}'))
            for p in t['params']:
                v = obj.params[p['name']]
                if v != _val(p['v']) or type(v) is not type(_val(p['v'])):
                    bad.append(('params', f'params:{name}:{p["name"]}:{brief}',
                                f'{name}.{p["name"]} = {v!r}, composition by precedence gives {_val(p["v"])!r}: {brief}'))
            real_inputs = list(obj.input_tasks.values())
            want_objs = []
            for inp in t['inputs']:
                if 'one' in inp:
                    want_objs.append(chain.tasks[name_text(inp['one'])])
                elif 'many' in inp:
                    want_objs.extend(chain.tasks[name_text(k)] for k in sorted(inp['many'], key=name_text))
                else:
                    want_objs.append(None)
            r_ids = sorted(id(o) if isinstance(o, Task) else 0 for o in real_inputs)
            w_ids = sorted(id(o) if o is not None else 0 for o in want_objs)
            if r_ids != w_ids:
                bad.append(('edges', f'edges:{name}:{brief}',
                            f'inputs of {name} are {[str(o) for o in real_inputs]}, declared wiring gives '
                            f'{[str(o) for o in want_objs]}: {brief}'))
            req = {id(chain.tasks[name_text(k)]) for k in t['required']}
            real_req = {id(o) for o in chain.required_tasks(name)}
            if req != real_req:
                bad.append(('closure', f'closure:{name}:{brief}',
                            f'required_tasks({name}) = {sorted(str(o) for o in chain.required_tasks(name))}, the '
                            f'transitive closure is {sorted(name_text(k) for k in t["required"])}: {brief}'))
        # closure queries must not depend on what was asked before (include_self variants, forcing)
        for name in list(exp)[:3]:
            chain.dependent_tasks(name, include_self=True)
            chain.required_tasks(name, include_self=True)
            chain.force(name)
        for name, t in exp.items():
            req = {id(chain.tasks[name_text(k)]) for k in t['required']}
            if {id(o) for o in chain.required_tasks(name)} != req:
                bad.append(('closure', f'closure-after-queries:{name}:{brief}',
                            f'required_tasks({name}) changed after include_self queries / force: {brief}'))
                break
        # dependent_tasks / is_task_dependent_on are the inverse closure - compared at OBJECT level: mounts that are
        # the same computation are one task object with several names (aliases)
        req_objs = {n2: {id(chain.tasks[name_text(k)]) for k in t2['required']} for n2, t2 in exp.items()}
        for name in exp:
            me = id(chain.tasks[name])
            dep_exp = {id(chain.tasks[n2]) for n2 in exp if me in req_objs[n2]}
            if {id(o) for o in chain.dependent_tasks(name)} != dep_exp:
                bad.append(('closure', f'dependent:{name}:{brief}', f'dependent_tasks({name}) wrong: {brief}'))
            for n2 in exp:
                want = me in req_objs[n2] or chain.tasks[n2] is chain.tasks[name]
                if bool(chain.is_task_dependent_on(n2, name)) != want:
                    bad.append(('closure', f'isdep:{brief}', f'is_task_dependent_on({n2}, {name}) != {want}: {brief}'))
                    break
    except Exception as e:  # noqa  harness-side problem: report as machinery, not as violation
        import traceback

        bad.append(('harness', 'harness', f'harness error: {type(e).__name__}: {e}\n{traceback.format_exc()[-800:]}'))
    finally:
        shutil.rmtree(work, ignore_errors=True)
    return idx, bad


def _brief(forest):
    def f(x):
        return {'tasks': sorted(x['tasks']), 'excl': x['excl'], 'vals': x['vals'],
                'uses': [u['f'] + (' as ' + u['ns'] if u['ns'] else '') for u in x['uses']]}

    return json.dumps({'root': {'tasks': forest['rootTasks'],
                                'uses': [u['f'] + (' as ' + u['ns'] if u['ns'] else '') for u in forest['rootUses']]},
                       'P1': f(forest['p1']), 'P2': f(forest['p2']), 'ctx': forest['ctx']}, sort_keys=True)


_CASES = []


def _job(i):
    return observe(_CASES[i], i, _SEED[0])


_SEED = [0]

C08_CATS = {'tasks', 'edges', 'closure', 'builds-input', 'builds-cycle', 'construct'}
C09_CATS = {'params', 'builds-conflict', 'builds-param', 'ctx-mutated', 'construct'}


def run(ctx, cats):
    from .core import MachineryError

    mod = 97 if ctx.quick() else 11
    text, cfg, sizes = mc(ctx.tier, ctx.seed, mod)
    res = run_tlc('MCResolve', cfg_text=cfg, extra_files={'MCResolve.tla': text}, workers=16, timeout=3000)
    account(ctx, res, f'Resolve: forests with menu sizes {sizes}, 1/{mod} of the product enumerated')
    cases = res.by_tag('R')
    if not cases:
        raise MachineryError('Resolve produced no cases')
    # implementation level: the algorithm of Chain._prepare (ResolveImpl.tla) against the property level, same forests
    ti, ci, _ = mc_impl(ctx.tier, ctx.seed, mod)
    ri = run_tlc('MCResolveImpl', cfg_text=ci, extra_files={'MCResolveImpl.tla': ti}, workers=16, timeout=6000, deadlock=False)
    account(ctx, ri, 'ResolveImpl = Resolve on the same forests (the stages of Chain._prepare transcribed on name texts): '
                     'ImplConforms, MountsConform')
    td, cd, _ = mc_impl(ctx.tier, 0, 61, prefix_sep=False)
    rd = run_tlc('MCResolveImpl', cfg_text=cd, extra_files={'MCResolveImpl.tla': td}, workers=16, timeout=3000, deadlock=False,
                 expect_ok=False)
    ctx.tlc_runs.append({'run': "ResolveImpl with the prefix test of the pinned 1.4.0 code (startswith(namespace) without "
                                "'::') against the property (counterexample expected: defect D3, repaired)",
                         'violated': rd.invariant_violated})
    if rd.invariant_violated != 'ImplConforms':
        raise MachineryError('ResolveImpl with the pinned prefix test was expected to violate ImplConforms (vacuity guard)')
    td, cd, _ = mc_impl(ctx.tier, 0, 61, class_exact=False)
    rd = run_tlc('MCResolveImpl', cfg_text=cd, extra_files={'MCResolveImpl.tla': td}, workers=16, timeout=3000, deadlock=False,
                 expect_ok=False)
    ctx.tlc_runs.append({'run': "ResolveImpl with the by-class lookup of the pinned 1.4.0 code (a grouped namesake makes the lookup "
                                "succeed, tasks[name] then raises KeyError - also for an optional input) against the property "
                                "(counterexample expected: defect D21, found by this check, repaired)",
                         'violated': rd.invariant_violated})
    if rd.invariant_violated != 'ImplConforms':
        raise MachineryError('ResolveImpl with the pinned by-class lookup was expected to violate ImplConforms (vacuity guard)')
    global _CASES
    _CASES = cases
    _SEED[0] = ctx.seed
    module()
    out = pmap(_job, range(len(cases)))
    ctx.traces += len(cases)
    ctx.extra['forests_expected_error'] = sum(1 for c in cases if 'error' in c['out'])
    ctx.extra['forests_expected_chain'] = sum(1 for c in cases if 'tasks' in c['out'])
    kinds = {}
    for c in cases:
        k = c['out'].get('error', 'chain')
        kinds[k] = kinds.get(k, 0) + 1
    ctx.extra['forests_by_outcome'] = kinds
    for idx, bad in out:
        c = cases[idx]
        ctx.case(_brief(c['forest']), nontrivial=bool(c['forest']['rootUses']))
        for cat, sig, what in bad:
            if cat == 'harness':
                raise MachineryError(what)
            if cat in cats:
                ctx.report(sig, what, detail=c)
            else:
                ctx.note(f'divergence in category {cat} (belongs to the other Resolve property): {what[:200]}')
    for c in cases[:2] + cases[-2:]:
        ctx.sample({'forest': json.loads(_brief(c['forest'])),
                    'expected': c['out'].get('error') or sorted(name_text(t['name']) for t in c['out']['tasks'])})
